package main

// A hand-written replacement of io.ReadFull is recognised by its shape, so that the protocol domain can use it through the
// same contract as io.ReadFull (a full successful read, or a failed read whose buffer is unusable):
//
//	func f(src io.Reader, buf []byte) error
//
// (1) the source is used only as the receiver of Read, and every Read gets buf[G:] where G is one loop-carried counter that
//     starts at 0 and is advanced by nothing but the count the very same Read returned (G' = G + m);
// (2) buf is used only for len(buf) and for those slices (no other write into it);
// (3) a nil error is returned only where the dominating branch conditions establish G >= len(buf) (resp. G' >= len(buf)):
//     with the Reader contract 0 <= m <= len(p) the counter never passes len(buf), so every byte was written by a Read;
// (4) every other return carries an error that is non-nil there (tested != nil on a dominating edge, a package-level
//     error value of io, or errors.New / fmt.Errorf).
//
// The rule reads the CFG; nothing is executed. A read loop that slices at the last count instead of the total, returns nil
// early, or tests the wrong variable is not recognised, and the call is then reported as an unmodelled use of the source.

import (
	"fmt"
	"go/token"
	"go/types"
	"os"
	"sync"

	"golang.org/x/tools/go/ssa"
)

type readHelper struct {
	rd, buf int
	why     string
}

var readHelperCache sync.Map // *ssa.Function -> *readHelper (nil entry: not a helper)

func isIOReader(t types.Type) bool {
	it, ok := t.Underlying().(*types.Interface)
	if !ok || it.NumMethods() != 1 {
		return false
	}
	m := it.Method(0)
	if m.Name() != "Read" {
		return false
	}
	sig := m.Type().(*types.Signature)
	return sig.Params().Len() == 1 && sig.Results().Len() == 2
}

func fullReadHelper(fn *ssa.Function) *readHelper {
	if v, ok := readHelperCache.Load(fn); ok {
		h, _ := v.(*readHelper)
		return h
	}
	h := fullReadHelper0(fn)
	if h == nil {
		readHelperCache.Store(fn, (*readHelper)(nil))
	} else {
		readHelperCache.Store(fn, h)
	}
	return h
}

func fullReadHelper0(fn *ssa.Function) *readHelper {
	if fn == nil || len(fn.Blocks) == 0 || fn.Signature.Recv() != nil {
		return rhFail(fn, 63)
	}
	res := fn.Signature.Results()
	if res.Len() != 1 || !isErrorType(res.At(0).Type()) {
		return rhFail(fn, 67)
	}
	rd, buf := -1, -1
	for i, p := range fn.Params {
		switch {
		case isIOReader(p.Type()):
			if rd >= 0 {
				return rhFail(fn, 74)
			}
			rd = i
		default:
			if sl, ok := p.Type().Underlying().(*types.Slice); ok && elemSize(sl.Elem()) == 1 {
				if buf >= 0 {
					return rhFail(fn, 80)
				}
				buf = i
			} else {
				return rhFail(fn, 84)
			}
		}
	}
	if rd < 0 || buf < 0 {
		return rhFail(fn, 89)
	}
	src, b := fn.Params[rd], fn.Params[buf]
	// (1) uses of the source
	var reads []*ssa.Call
	for _, ref := range *src.Referrers() {
		switch x := ref.(type) {
		case *ssa.DebugRef:
		case *ssa.Call:
			if !x.Call.IsInvoke() || x.Call.Value != ssa.Value(src) || x.Call.Method.Name() != "Read" || len(x.Call.Args) != 1 {
				return rhFail(fn, 99)
			}
			reads = append(reads, x)
		default:
			return rhFail(fn, 103)
		}
	}
	if len(reads) == 0 {
		return rhFail(fn, 107)
	}
	isLenBuf := func(v ssa.Value) bool {
		c, ok := v.(*ssa.Call)
		if !ok {
			return false
		}
		bi, ok := c.Call.Value.(*ssa.Builtin)
		return ok && bi.Name() == "len" && len(c.Call.Args) == 1 && c.Call.Args[0] == ssa.Value(b)
	}
	// (2) uses of the buffer
	readSlice := map[*ssa.Slice]bool{}
	for _, ref := range *b.Referrers() {
		switch x := ref.(type) {
		case *ssa.DebugRef:
		case *ssa.Call:
			if !isLenBuf(x) {
				return rhFail(fn, 124)
			}
		case *ssa.Slice:
			if x.X != ssa.Value(b) || x.High != nil || x.Max != nil {
				return rhFail(fn, 128)
			}
			for _, r2 := range *x.Referrers() {
				if _, isDbg := r2.(*ssa.DebugRef); isDbg {
					continue
				}
				c, ok := r2.(*ssa.Call)
				if !ok {
					return rhFail(fn, 136)
				}
				found := false
				for _, rc := range reads {
					if rc == c && c.Call.Args[0] == ssa.Value(x) {
						found = true
					}
				}
				if !found {
					return rhFail(fn, 145)
				}
			}
			readSlice[x] = true
		default:
			return rhFail(fn, 150)
		}
	}
	// the counter: one phi G with edges {0, G + m}; every Read slices at G and m is its own count
	var G *ssa.Phi
	var Gnext []ssa.Value
	for _, rc := range reads {
		sl, ok := rc.Call.Args[0].(*ssa.Slice)
		if !ok || !readSlice[sl] {
			return rhFail(fn, 159)
		}
		var g *ssa.Phi
		switch lo := sl.Low.(type) {
		case nil:
			return rhFail(fn, 164)
		case *ssa.Phi:
			g = lo
		default:
			return rhFail(fn, 168)
		}
		if G != nil && g != G {
			return rhFail(fn, 171)
		}
		G = g
		// the count of this Read
		var m ssa.Value
		for _, r2 := range *rc.Referrers() {
			if ex, ok := r2.(*ssa.Extract); ok && ex.Index == 0 {
				m = ex
			}
		}
		if m == nil {
			return rhFail(fn, 182)
		}
		// G + m
		var sum ssa.Value
		for _, r2 := range *m.Referrers() {
			if bo, ok := r2.(*ssa.BinOp); ok && bo.Op == token.ADD && ((bo.X == ssa.Value(G) && bo.Y == m) || (bo.Y == ssa.Value(G) && bo.X == m)) {
				sum = bo
			} else if bo, ok := r2.(*ssa.BinOp); ok && isComparison(bo.Op) {
				// testing the count (n > 0, n == 0: progress bookkeeping) changes nothing
			} else if _, isDbg := r2.(*ssa.DebugRef); !isDbg {
				return rhFail(fn, 192)
			}
		}
		if sum == nil {
			return rhFail(fn, 196)
		}
		Gnext = append(Gnext, sum)
	}
	if G == nil {
		return rhFail(fn, 201)
	}
	for _, e := range G.Edges {
		if c, ok := e.(*ssa.Const); ok && c.Value != nil && c.Value.ExactString() == "0" {
			continue
		}
		ok := false
		for _, s := range Gnext {
			if e == s {
				ok = true
			}
		}
		if !ok {
			return rhFail(fn, 214)
		}
	}
	isCounter := func(v ssa.Value) bool {
		if v == ssa.Value(G) {
			return true
		}
		for _, s := range Gnext {
			if v == s {
				return true
			}
		}
		return false
	}
	// (3), (4) the returns
	full := func(blk *ssa.BasicBlock) bool {
		for _, ec := range edgeConds(blk) {
			c, ok := ec.If.Cond.(*ssa.BinOp)
			if !ok {
				continue
			}
			op, x, y := c.Op, c.X, c.Y
			if isLenBuf(x) { // len(buf) OP counter  ->  counter OP' len(buf)
				x, y = y, x
				op = map[token.Token]token.Token{token.LSS: token.GTR, token.GTR: token.LSS, token.LEQ: token.GEQ, token.GEQ: token.LEQ, token.EQL: token.EQL, token.NEQ: token.NEQ}[op]
			}
			if !isCounter(x) || !isLenBuf(y) {
				continue
			}
			if (op == token.LSS && !ec.Truth) || (op == token.GEQ && ec.Truth) || (op == token.EQL && ec.Truth) || (op == token.NEQ && !ec.Truth) {
				return true
			}
		}
		return false
	}
	nonNil := func(v ssa.Value, blk *ssa.BasicBlock) bool {
		switch x := v.(type) {
		case *ssa.UnOp:
			if g, ok := x.X.(*ssa.Global); ok && x.Op == token.MUL && g.Pkg != nil && g.Pkg.Pkg.Path() == "io" {
				return true // io.EOF, io.ErrUnexpectedEOF, ...: package-level error values, never nil
			}
		case *ssa.Call:
			if cal := x.Call.StaticCallee(); cal != nil && (cal.String() == "errors.New" || cal.String() == "fmt.Errorf") {
				return true
			}
		}
		for _, ec := range edgeConds(blk) {
			c, ok := ec.If.Cond.(*ssa.BinOp)
			if !ok {
				continue
			}
			isNil := func(w ssa.Value) bool { k, ok := w.(*ssa.Const); return ok && k.Value == nil }
			if (c.X == v && isNil(c.Y)) || (c.Y == v && isNil(c.X)) {
				if (c.Op == token.NEQ && ec.Truth) || (c.Op == token.EQL && !ec.Truth) {
					return true
				}
			}
		}
		return false
	}
	// Path-based justification (for loops whose exit is a conjunction, `for got < len(buf) && err == nil`): every backward
	// path from the return to the entry or to a back edge - the part of the execution that belongs to the current iteration,
	// so that every SSA value named on it is the current instance - either carries contradictory branch conditions or
	// establishes what the return needs.
	type lit struct {
		x, y ssa.Value
		op   token.Token
	}
	mkLit := func(iff *ssa.If, truth bool) (lit, bool) {
		c, ok := iff.Cond.(*ssa.BinOp)
		if !ok || !isComparison(c.Op) {
			return lit{}, false
		}
		op := c.Op
		if !truth {
			op = map[token.Token]token.Token{token.LSS: token.GEQ, token.GEQ: token.LSS, token.GTR: token.LEQ, token.LEQ: token.GTR, token.EQL: token.NEQ, token.NEQ: token.EQL}[op]
		}
		return lit{c.X, c.Y, op}, true
	}
	sameV := func(a, b ssa.Value) bool {
		if a == b {
			return true
		}
		if isLenBuf(a) && isLenBuf(b) {
			return true
		}
		ka, ok1 := a.(*ssa.Const)
		kb, ok2 := b.(*ssa.Const)
		if ok1 && ok2 {
			if ka.Value == nil || kb.Value == nil {
				return ka.Value == nil && kb.Value == nil
			}
			return ka.Value.ExactString() == kb.Value.ExactString()
		}
		return false
	}
	flip := map[token.Token]token.Token{token.LSS: token.GTR, token.GTR: token.LSS, token.LEQ: token.GEQ, token.GEQ: token.LEQ, token.EQL: token.EQL, token.NEQ: token.NEQ}
	excl := func(a, b token.Token) bool { // can x a y and x b y hold together? (true: no)
		sets := map[token.Token]int{token.LSS: 1, token.EQL: 2, token.GTR: 4, token.LEQ: 3, token.GEQ: 6, token.NEQ: 5}
		return sets[a]&sets[b] == 0
	}
	contradictory := func(ls []lit) bool {
		for i := range ls {
			for j := i + 1; j < len(ls); j++ {
				a, b := ls[i], ls[j]
				if sameV(a.x, b.x) && sameV(a.y, b.y) && excl(a.op, b.op) {
					return true
				}
				if sameV(a.x, b.y) && sameV(a.y, b.x) && excl(a.op, flip[b.op]) {
					return true
				}
			}
		}
		return false
	}
	type bpath struct {
		lits   []lit
		blocks []*ssa.BasicBlock // from the return block backwards
	}
	var backPaths func(cur *ssa.BasicBlock, acc bpath, out *[]bpath) bool
	backPaths = func(cur *ssa.BasicBlock, acc bpath, out *[]bpath) bool {
		acc.blocks = append(append([]*ssa.BasicBlock(nil), acc.blocks...), cur)
		if len(*out) > 256 || len(acc.blocks) > 64 {
			return false
		}
		if len(cur.Preds) == 0 {
			*out = append(*out, acc)
			return true
		}
		for _, p := range cur.Preds {
			if cur.Dominates(p) { // back edge: the path so far is one iteration's worth
				*out = append(*out, acc)
				continue
			}
			next := bpath{lits: append([]lit(nil), acc.lits...), blocks: acc.blocks}
			if iff, ok := p.Instrs[len(p.Instrs)-1].(*ssa.If); ok && p.Succs[0] != p.Succs[1] {
				if l, ok := mkLit(iff, p.Succs[0] == cur); ok {
					next.lits = append(next.lits, l)
				}
			}
			if !backPaths(p, next, out) {
				return false
			}
		}
		return true
	}
	isNilC := func(w ssa.Value) bool { k, ok := w.(*ssa.Const); return ok && k.Value == nil }
	staticNonNil := func(v ssa.Value) bool {
		switch x := v.(type) {
		case *ssa.UnOp:
			if g, ok := x.X.(*ssa.Global); ok && x.Op == token.MUL && g.Pkg != nil && g.Pkg.Pkg.Path() == "io" {
				return true
			}
		case *ssa.Call:
			if cal := x.Call.StaticCallee(); cal != nil && (cal.String() == "errors.New" || cal.String() == "fmt.Errorf") {
				return true
			}
		}
		return false
	}
	byPaths := func(blk *ssa.BasicBlock, rv ssa.Value, wantNil bool) bool {
		var paths []bpath
		if !backPaths(blk, bpath{}, &paths) || len(paths) == 0 {
			return false
		}
		for _, pth := range paths {
			if contradictory(pth.lits) {
				continue
			}
			ok := false
			if wantNil {
				for _, l := range pth.lits {
					x, y, op := l.x, l.y, l.op
					if isLenBuf(x) {
						x, y, op = y, x, flip[op]
					}
					if isCounter(x) && isLenBuf(y) && (op == token.GEQ || op == token.EQL) {
						ok = true
					}
				}
			} else {
				// the value returned on this path: phis resolved along the blocks of the path
				// (a condition on the phi itself or on the value it takes on this path both speak about what is returned)
				v := rv
				cands := []ssa.Value{v}
				for i := 0; i+1 < len(pth.blocks); i++ {
					ph, isPhi := v.(*ssa.Phi)
					if !isPhi || ph.Block() != pth.blocks[i] {
						continue
					}
					for k, pr := range pth.blocks[i].Preds {
						if pr == pth.blocks[i+1] {
							v = ph.Edges[k]
							cands = append(cands, v)
							break
						}
					}
				}
				for _, cv := range cands {
					if staticNonNil(cv) {
						ok = true
					}
					for _, l := range pth.lits {
						if l.op == token.NEQ && ((l.x == cv && isNilC(l.y)) || (l.y == cv && isNilC(l.x))) {
							ok = true
						}
					}
				}
			}
			if !ok {
				return false
			}
		}
		return true
	}
	nRet := 0
	for _, blk := range fn.Blocks {
		for _, in := range blk.Instrs {
			ret, ok := in.(*ssa.Return)
			if !ok {
				continue
			}
			nRet++
			rv := retVals(ret)
			if len(rv) != 1 {
				return rhFail(fn, 434)
			}
			if c, isC := rv[0].(*ssa.Const); isC && c.Value == nil {
				if !full(blk) && !byPaths(blk, rv[0], true) {
					return rhFail(fn, 438)
				}
				continue
			}
			if !nonNil(rv[0], blk) && !byPaths(blk, rv[0], false) {
				return rhFail(fn, 443)
			}
		}
	}
	if nRet == 0 {
		return rhFail(fn, 448)
	}
	return &readHelper{rd: rd, buf: buf, why: "the source is read only as Read(buf[got:]) with got advanced by each count; nil is returned only behind got >= len(buf); other returns carry a non-nil error"}
}

func isComparison(op token.Token) bool {
	switch op {
	case token.LSS, token.LEQ, token.GTR, token.GEQ, token.EQL, token.NEQ:
		return true
	}
	return false
}

func rhFail(fn *ssa.Function, line int) *readHelper {
	if fn != nil && os.Getenv("SMGO_RH") != "" {
		fmt.Printf("readhelper: %s not recognised (readhelper.go:%d)\n", fn.Name(), line)
	}
	return nil
}
