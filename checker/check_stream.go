package main

// C04 in the stream domain: the buffering invariant of SM3 values.
//
//   Inv(s; S):  s.h is the chaining value after the first floor(|S|/64) blocks of the byte stream S,
//               s.x[0:s.nx] are the remaining |S| mod 64 bytes of S (the pending bytes P), s.nx = |S| mod 64, s.len = |S|.
//
// WRITE-INVARIANT: Write(data) from Inv(s; S) compresses the 64-byte blocks of P || data in order, leaves Inv(s; S || data)
// and returns (len(data), nil). SUM-PADDING: Sum(in) from Inv(s; S) compresses, on a copy of the chaining value, exactly
// P || 0x80 || 0^z || be64(8|S|) with the least z that ends on a block boundary, returns in || be32(h'[0..7]) and leaves s
// untouched. RESET / ONE-SHOT: Reset establishes Inv(s; empty) with the standard initial value; SumSM3(data) compresses
// pad(data) from the initial value. All by interpretation of the functions over symbolic lengths (loops accelerated),
// with byte contents resolved from the effect log and every comparison decided by the LP over the path condition.

import (
	"fmt"
	"go/token"
	"sort"
	"strings"

	"golang.org/x/tools/go/ssa"
)

type want struct {
	kind string // "src": initial bytes of object obj from off; "zero"; "val": big-endian / element value t over n bytes; "ld": a word loaded from obj at off after effect minIdx
	obj  int
	off  *pt
	t    *pt
	n    int64
	min  int
}

type streamRun struct {
	r    *Report
	p    *Prog
	fn   *ssa.Function
	name string
	e    *sched
	d    *protoDom
	outs []protoOutcome
	bad  map[string][]string
	seen map[string]int
}

func newStreamRun(r *Report, p *Prog, name string, pre []pFact) *streamRun {
	fn := p.MustFunc(r, name)
	if fn == nil {
		return nil
	}
	e, outs := protoRunStream(p, fn, pre)
	s := &streamRun{r: r, p: p, fn: fn, name: name, e: e, d: e.proto, outs: outs, bad: map[string][]string{}, seen: map[string]int{}}
	r.Count("stream_paths", len(outs))
	if len(e.errs) > 0 {
		r.Viol("FOLLOWED", name, p.Pos(fn.Pos()), "the function cannot be followed in the stream domain: "+strings.Join(firstN(e.errs, 3), "; "))
		return nil
	}
	return s
}

func (s *streamRun) need(rule string, ok bool, format string, a ...interface{}) {
	s.seen[rule]++
	if !ok {
		s.bad[rule] = append(s.bad[rule], fmt.Sprintf(format, a...))
	}
}

func (s *streamRun) flush(desc map[string]string) {
	pos := s.p.Pos(s.fn.Pos())
	var rules []string
	for k := range desc {
		rules = append(rules, k)
	}
	sort.Strings(rules)
	for _, rule := range rules {
		bad := s.bad[rule]
		sort.Strings(bad)
		bad = uniq(bad)
		s.r.Check(len(bad) == 0 && s.seen[rule] > 0, rule, s.name, pos, fmt.Sprintf("%s (%d outcome checks on %d paths)", desc[rule], s.seen[rule], len(s.outs))+ifs(len(bad) > 0, ": "+strings.Join(firstN(bad, 3), "; "))+ifs(s.seen[rule] == 0, ": no outcome to check"))
	}
	for _, rule := range []string{"SLICE-BOUNDS", "INDEX-BOUNDS", "CALLSITE"} {
		b := s.d.gBad[rule]
		sort.Strings(b)
		s.r.Count("stream_obligations", s.d.gOK[rule]+len(b))
		s.r.Check(len(b) == 0, rule, s.name, pos, fmt.Sprintf("%d bounds follow from the path conditions", s.d.gOK[rule]+len(b))+ifs(len(b) > 0, ": "+strings.Join(firstN(b, 3), "; ")))
	}
}

func (s *streamRun) prove(o protoOutcome, a *pt, op token.Token, b *pt) bool {
	return proveP(o.st.pfacts, a, op, b)
}

func (s *streamRun) objNamed(o protoOutcome, name string) int {
	for id, h := range o.st.heap {
		if gh, ok := h.(*hGObj); ok && gh.name == name {
			return id
		}
	}
	return 0
}

// fieldArr: the array object of a field (created on demand, so that an untouched field still has an identity)
func (s *streamRun) fieldArr(o protoOutcome, recv, field string) int {
	if v, ok := o.st.gfields[recv+"."+field].(gArr); ok {
		return v.obj
	}
	return s.objNamed(o, recv+"."+field)
}

func (s *streamRun) fieldTerm(o protoOutcome, key string) *pt {
	if v, ok := o.st.gfields[key]; ok {
		if t, ok := termOf(v); ok {
			return t
		}
		return nil
	}
	if strings.HasPrefix(key, "local ") {
		return pC(0) // an untouched field of a local (zeroed) struct
	}
	return pParam(key)
}

// content: do the bytes [lo,hi) of obj, as they are just before effect idx, equal w? Returns a reason when not provable.
func (s *streamRun) content(o protoOutcome, obj, idx int, lo, hi *pt, w want, depth int) string {
	if s.prove(o, hi, token.LEQ, lo) {
		return ""
	}
	if depth > 450 {
		return "content resolution too deep"
	}
	eff := o.st.geff
	if idx > len(eff) {
		idx = len(eff)
	}
	hname := func(id int) string {
		if h := s.d.gobj(o.st, id); h != nil {
			return h.name
		}
		return fmt.Sprint(id)
	}
	for j := idx - 1; j >= 0; j-- {
		ef := eff[j]
		switch ef.kind {
		case "rep":
			fill := false
			for bi, be := range ef.rep.body {
				if be.obj == obj && be.kind == "write" && be.val != nil && be.n != nil && len(ef.rep.body) == 1 {
					if w0, ok := constDiff(be.n, pC(0)); ok && w0 == ef.rep.dOff[bi] && w0 > 0 {
						// a fill loop: k consecutive elements receive the same value: one write of k*w bytes
						ef = gEffect{kind: "fill", obj: obj, off: be.off, n: pMul(pC(w0), ef.rep.k), val: be.val, pos: be.pos}
						fill = true
						break
					}
				}
				if be.obj == obj && (be.kind == "copy" || be.kind == "write" || be.kind == "put") {
					return "written inside a loop (" + hname(obj) + ")"
				}
				if be.kind == "cf" && s.fieldArr(o, be.what, "h") == obj {
					return "chaining value changed by a later compression"
				}
			}
			if !fill {
				continue
			}
		case "cf":
			if s.fieldArr(o, ef.what, "h") == obj {
				return "chaining value changed by a later compression"
			}
			continue
		case "copy", "write", "put", "fill":
		default:
			if ef.obj == obj && ef.kind != "call" {
				return "written by " + ef.kind + " " + ef.what
			}
			continue
		}
		if ef.obj != obj {
			continue
		}
		wlo, whi := ef.off, pAdd(ef.off, ef.n)
		if s.prove(o, ef.n, token.LEQ, pC(0)) || s.prove(o, whi, token.LEQ, lo) || s.prove(o, wlo, token.GEQ, hi) {
			continue
		}
		if !(s.prove(o, wlo, token.LEQ, lo) && s.prove(o, hi, token.LEQ, whi)) {
			// partial overlap: when the order of the four bounds is known, the wanted range splits into the part this
			// effect covers (checked against it) and the parts before / after it (checked against the earlier effects)
			shift := func(w want, by *pt) want {
				if w.kind == "src" {
					w.off = pAdd(w.off, by)
				}
				return w
			}
			if depth < 400 && (w.kind == "src" || w.kind == "zero") {
				startsInside := s.prove(o, wlo, token.GEQ, lo)
				endsInside := s.prove(o, whi, token.LEQ, hi)
				startsBefore := s.prove(o, wlo, token.LEQ, lo)
				endsAfter := s.prove(o, whi, token.GEQ, hi)
				if (startsInside || startsBefore) && (endsInside || endsAfter) {
					clo, chi := lo, hi
					if startsInside {
						clo = wlo
						if why := s.content(o, obj, j, lo, wlo, w, depth+1); why != "" {
							return why
						}
					}
					if endsInside {
						chi = whi
						if why := s.content(o, obj, j, whi, hi, shift(w, pAdd(whi, pNeg(lo))), depth+1); why != "" {
							return why
						}
					}
					// the covered middle part against this effect alone
					return s.content(o, obj, j+1, clo, chi, shift(w, pAdd(clo, pNeg(lo))), depth+1)
				}
			}
			return fmt.Sprintf("bytes [%s,%s) of %s are only partly covered by the %s at %s", lo, hi, hname(obj), ef.kind, ef.pos)
		}
		switch ef.kind {
		case "copy":
			at := j
			if ef.hasSrcIdx {
				at = ef.srcIdx
			}
			slo := pAdd(ef.srcOff, pAdd(lo, pNeg(wlo)))
			return s.content(o, ef.srcObj, at, slo, pAdd(slo, pAdd(hi, pNeg(lo))), w, depth+1)
		default: // put, write, fill
			if ef.kind == "fill" {
				// every element of the covered range holds val
				if w.kind == "zero" && s.prove(o, ef.val, token.EQL, pC(0)) {
					return ""
				}
				if w.kind == "val" && w.n == 1 && s.prove(o, ef.val, token.EQL, w.t) && samePoly(pAdd(hi, pNeg(lo)), pC(1)) {
					return ""
				}
				return fmt.Sprintf("the fill loop at %s stores %s where %s content is required", ef.pos, ef.val, w.kind)
			}
			exact := s.prove(o, wlo, token.EQL, lo) && s.prove(o, whi, token.EQL, hi)
			if ef.val == nil {
				return "unknown value stored at " + ef.pos
			}
			switch w.kind {
			case "zero":
				if s.prove(o, ef.val, token.EQL, pC(0)) {
					return ""
				}
				return fmt.Sprintf("%s stored at %s where zero bytes are required", ef.val, ef.pos)
			case "val":
				if exact && samePoly(ef.n, pC(w.n)) && s.prove(o, ef.val, token.EQL, w.t) {
					return ""
				}
				return fmt.Sprintf("%s (%s bytes) stored at %s where %s (%d bytes) is required", ef.val, ef.n, ef.pos, w.t, w.n)
			case "ld":
				v := ef.val
				if exact && samePoly(ef.n, pC(w.n)) && v.op == "ld" && v.k == w.obj && s.prove(o, v.args[0], token.EQL, w.off) && int(v.n.Int64()) >= w.min {
					return ""
				}
				return fmt.Sprintf("%s stored at %s where word %s of the final chaining value is required", v, ef.pos, w.off)
			}
			return fmt.Sprintf("a value is stored at %s where bytes of %s are required", ef.pos, hname(w.obj))
		}
	}
	h := s.d.gobj(o.st, obj)
	switch {
	case h == nil:
		return "unknown object"
	case h.hasSnap:
		return s.content(o, h.snapObj, h.snapIdx, lo, hi, w, depth+1)
	case h.fresh:
		if w.kind == "zero" || (w.kind == "val" && s.prove(o, w.t, token.EQL, pC(0))) {
			return ""
		}
		return fmt.Sprintf("bytes [%s,%s) of the zeroed %s where other content is required", lo, hi, h.name)
	default:
		if w.kind == "src" && w.obj == obj && s.prove(o, w.off, token.EQL, lo) {
			return ""
		}
		if w.kind == "src" {
			return fmt.Sprintf("bytes of %s from %s where bytes of %s from %s are required", h.name, lo, hname(w.obj), w.off)
		}
		return fmt.Sprintf("unchanged bytes of %s where %s content is required", h.name, w.kind)
	}
}

// streamBlock: the 64 bytes [off, off+64) of obj before effect idx are the stream bytes [pos, pos+64) of pend || data,
// where pend are the nx0 bytes described by pw (at pend offset 0) and data is the object dataObj.
func (s *streamRun) streamBytes(o protoOutcome, obj, idx int, off, n, pos, nx0 *pt, pw want, dataObj int) string {
	hi := pAdd(off, n)
	dataW := func(at *pt) want { return want{kind: "src", obj: dataObj, off: at} }
	pendW := func(at *pt) want { w := pw; w.off = pAdd(pw.off, at); return w }
	switch {
	case s.prove(o, pos, token.GEQ, nx0):
		return s.content(o, obj, idx, off, hi, dataW(pAdd(pos, pNeg(nx0))), 0)
	case s.prove(o, pAdd(pos, n), token.LEQ, nx0):
		return s.content(o, obj, idx, off, hi, pendW(pos), 0)
	default:
		// straddles the end of the pending bytes
		split := pAdd(off, pAdd(nx0, pNeg(pos)))
		if why := s.content(o, obj, idx, off, split, pendW(pos), 0); why != "" {
			return why
		}
		return s.content(o, obj, idx, split, hi, dataW(pC(0)), 0)
	}
}

// consume walks the compression calls of an outcome in order. Each must read the next 64 stream bytes. Returns the number of
// stream bytes consumed, the receiver whose chaining value was advanced, and the effect indices of the single calls.
type cfCall struct {
	idx  int
	recv string
	ef   gEffect
	rep  *gRep
}

func (s *streamRun) cfCalls(o protoOutcome) ([]cfCall, string) {
	var out []cfCall
	for i, ef := range o.st.geff {
		switch ef.kind {
		case "cf":
			out = append(out, cfCall{idx: i, recv: ef.what, ef: ef})
		case "rep":
			n := 0
			for bi, be := range ef.rep.body {
				if be.kind == "cf" {
					n++
					if len(ef.rep.body) != 1 {
						return nil, "a loop mixes compression calls with other effects"
					}
					if ef.rep.dOff[bi] != 64 {
						return nil, fmt.Sprintf("a loop advances its block by %d bytes per compression", ef.rep.dOff[bi])
					}
					out = append(out, cfCall{idx: i, recv: be.what, ef: be, rep: ef.rep})
				}
			}
		}
	}
	return out, ""
}

// noForeignWrites: the outcome writes only into the allowed objects (by id)
func (s *streamRun) writesOutside(o protoOutcome, allowed map[int]bool) string {
	var chk func(ef gEffect) string
	chk = func(ef gEffect) string {
		switch ef.kind {
		case "copy", "write", "put", "asm":
			if h := s.d.gobj(o.st, ef.obj); h != nil && !h.fresh && !allowed[ef.obj] {
				return fmt.Sprintf("%s is written at %s", h.name, ef.pos)
			}
		case "rep":
			for _, be := range ef.rep.body {
				if why := chk(be); why != "" {
					return why
				}
			}
		}
		return ""
	}
	for _, ef := range o.st.geff {
		if why := chk(ef); why != "" {
			return why
		}
	}
	return ""
}

// ---------- Write ----------

func c04WriteInvariant(r *Report, p *Prog) {
	s := newStreamRun(r, p, "sm3.(*SM3).Write", sm3Invariant("sm3"))
	if s == nil {
		return
	}
	nx0, L0 := pParam("sm3.nx"), pParam("sm3.len")
	n := pOp("len", pParam("data"))
	for _, o := range s.outs {
		// result
		okRet := len(o.vals) == 2 && isNilVal(o.vals[1])
		if okRet {
			t, ok := termOf(o.vals[0])
			okRet = ok && s.prove(o, t, token.EQL, n)
		}
		s.need("WRITE-RESULT", okRet, "an outcome returns (%s); required (len(data), nil)", strings.Join(o.terms, ", "))
		xObj, dataObj := s.fieldArr(o, "sm3", "x"), s.objNamed(o, "data")
		hObj := s.fieldArr(o, "sm3", "h")
		if why := s.writesOutside(o, map[int]bool{xObj: true, hObj: true}); why != "" {
			s.need("WRITE-INVARIANT", false, "%s", why)
			continue
		}
		calls, why := s.cfCalls(o)
		if why != "" {
			s.need("WRITE-INVARIANT", false, "%s", why)
			continue
		}
		pend := want{kind: "src", obj: xObj, off: pC(0)}
		pos := pC(0)
		okAll := true
		for _, c := range calls {
			if c.recv != "sm3" {
				s.need("WRITE-INVARIANT", false, "a compression at %s advances the chaining value of %s, not the receiver's", c.ef.pos, c.recv)
				okAll = false
				break
			}
			if why := s.streamBytes(o, c.ef.obj, c.idx, c.ef.off, pC(64), pos, nx0, pend, dataObj); why != "" {
				s.need("WRITE-INVARIANT", false, "the block compressed at %s is not the next 64 bytes (from %s) of pending || data: %s", c.ef.pos, pos, why)
				okAll = false
				break
			}
			if c.rep != nil {
				if c.ef.obj != dataObj {
					s.need("WRITE-INVARIANT", false, "a loop compresses blocks of a buffer that changes between iterations")
					okAll = false
					break
				}
				pos = pAdd(pos, pMul(pC(64), c.rep.k))
			} else {
				pos = pAdd(pos, pC(64))
			}
		}
		if !okAll {
			continue
		}
		nx1 := s.fieldTerm(o, "sm3.nx")
		len1 := s.fieldTerm(o, "sm3.len")
		if nx1 == nil || len1 == nil {
			s.need("WRITE-INVARIANT", false, "nx or len hold a value the domain does not model")
			continue
		}
		s.need("WRITE-INVARIANT", s.prove(o, nx1, token.GEQ, pC(0)) && s.prove(o, nx1, token.LEQ, pC(63)), "afterwards nx = %s is not provably in 0..63", nx1)
		s.need("WRITE-INVARIANT", s.prove(o, pAdd(pos, nx1), token.EQL, pAdd(nx0, n)), "compressed %s bytes and left nx = %s; together they must account for nx + len(data) bytes", pos, nx1)
		s.need("WRITE-INVARIANT", s.prove(o, len1, token.EQL, pAdd(L0, n)), "afterwards len = %s; required len + len(data)", len1)
		if why := s.streamBytes(o, xObj, len(o.st.geff), pC(0), nx1, pos, nx0, pend, dataObj); why != "" {
			s.need("WRITE-INVARIANT", false, "afterwards x[0:nx] is not the unprocessed tail (from %s) of pending || data: %s", pos, why)
		}
	}
	s.r.Count("write_outcomes", len(s.outs))
	s.flush(map[string]string{
		"WRITE-RESULT":    "every outcome of Write returns (len(data), nil)",
		"WRITE-INVARIANT": "from 0 <= nx <= 63 with x[0:nx] pending, every outcome compresses the 64-byte blocks of pending || data in order exactly once, keeps the rest in x[0:nx'] with 0 <= nx' <= 63 and adds len(data) to len",
	})
}

// ---------- finalisation (Sum, SumSM3) ----------

// finalBlocks: the last m compression calls read pend || 0x80 || 0^z || be64(bits) (m = 1 when nx0 <= 55, else 2)
func (s *streamRun) finalBlocks(o protoOutcome, calls []cfCall, nx0 *pt, pend want, dataObj int, bits *pt) string {
	m := len(calls)
	switch m {
	case 1:
		if !s.prove(o, nx0, token.LEQ, pC(55)) {
			return fmt.Sprintf("one padding block although %s <= 55 pending bytes do not follow from the path", nx0)
		}
	case 2:
		if !s.prove(o, nx0, token.GEQ, pC(56)) {
			return fmt.Sprintf("two padding blocks although %s >= 56 pending bytes do not follow from the path", nx0)
		}
	default:
		return fmt.Sprintf("%d compression calls finish the message; one or two are required", m)
	}
	for j, c := range calls {
		if c.rep != nil {
			return "a padding block is compressed in a loop"
		}
		off := c.ef.off
		at := func(k int64) *pt { return pAdd(off, pC(k)) }
		type seg struct {
			lo, hi *pt
			w      want
			what   string
		}
		var segs []seg
		lenSeg := seg{at(56), at(64), want{kind: "val", t: bits, n: 8}, "the 64-bit big-endian bit length"}
		if j == 0 {
			segs = append(segs, seg{off, pAdd(off, nx0), pend, "the pending bytes"})
			segs = append(segs, seg{pAdd(off, nx0), pAdd(off, pAdd(nx0, pC(1))), want{kind: "val", t: pC(0x80), n: 1}, "the 0x80 marker"})
			if m == 1 {
				segs = append(segs, seg{pAdd(off, pAdd(nx0, pC(1))), at(56), want{kind: "zero"}, "the zero fill"}, lenSeg)
			} else {
				segs = append(segs, seg{pAdd(off, pAdd(nx0, pC(1))), at(64), want{kind: "zero"}, "the zero fill"})
			}
		} else {
			segs = append(segs, seg{off, at(56), want{kind: "zero"}, "the zero fill"}, lenSeg)
		}
		for _, sg := range segs {
			var why string
			if sg.w.kind == "src" && dataObj != 0 && sg.w.obj == dataObj {
				why = s.content(o, c.ef.obj, c.idx, sg.lo, sg.hi, sg.w, 0)
			} else {
				why = s.content(o, c.ef.obj, c.idx, sg.lo, sg.hi, sg.w, 0)
			}
			if why != "" {
				return fmt.Sprintf("padding block %d compressed at %s: %s expected at [%s,%s): %s", j+1, c.ef.pos, sg.what, sg.lo, sg.hi, why)
			}
		}
	}
	return ""
}

// chain: the compression calls advance one chaining value: the first call's receiver starts from `start` (a want on its h),
// a later call on another receiver works on a copy of the previous receiver's h taken after the previous call
func (s *streamRun) chain(o protoOutcome, calls []cfCall, startOK func(hObj, idx int) string) string {
	for i, c := range calls {
		hObj := s.fieldArr(o, c.recv, "h")
		if hObj == 0 {
			return "the chaining value of " + c.recv + " is not an object of the domain"
		}
		if i == 0 {
			if why := startOK(hObj, c.idx); why != "" {
				return why
			}
			continue
		}
		prev := calls[i-1]
		if prev.recv == c.recv {
			continue
		}
		h := s.d.gobj(o.st, hObj)
		if h == nil || !h.hasSnap || h.snapObj != s.fieldArr(o, prev.recv, "h") || h.snapIdx <= prev.idx {
			return fmt.Sprintf("the compression at %s does not continue the chaining value left by the one at %s", c.ef.pos, prev.ef.pos)
		}
		for _, later := range calls[i:] {
			if later.recv == prev.recv {
				return "two copies of the chaining value are advanced alternately"
			}
		}
	}
	return ""
}

// digest: bytes [lo, lo+32) of obj at the end are be32 of the eight words of recv's chaining value after the last call
func (s *streamRun) digest(o protoOutcome, obj int, lo *pt, last cfCall) string {
	hObj := s.fieldArr(o, last.recv, "h")
	for i := int64(0); i < 8; i++ {
		w := want{kind: "ld", obj: hObj, off: pC(4 * i), n: 4, min: last.idx + 1}
		if why := s.content(o, obj, len(o.st.geff), pAdd(lo, pC(4*i)), pAdd(lo, pC(4*i+4)), w, 0); why != "" {
			return fmt.Sprintf("digest bytes %d..%d: %s", 4*i, 4*i+3, why)
		}
	}
	// the chaining value is not written again after the last compression (e.g. by a Reset) before it is read: covered by
	// the position requirement of the loaded words (min) together with the absence of later stores
	for _, ef := range o.st.geff[last.idx+1:] {
		if (ef.kind == "write" || ef.kind == "put" || ef.kind == "copy") && ef.obj == hObj {
			return "the chaining value is overwritten at " + ef.pos + " before the digest is produced"
		}
	}
	return ""
}

func c04Sum(r *Report, p *Prog) {
	s := newStreamRun(r, p, "sm3.(*SM3).Sum", sm3Invariant("sm3"))
	if s == nil {
		return
	}
	nx0, L0 := pParam("sm3.nx"), pParam("sm3.len")
	inLen := pOp("len", pParam("in"))
	for _, o := range s.outs {
		xObj, hObj, inObj := s.fieldArr(o, "sm3", "x"), s.fieldArr(o, "sm3", "h"), s.objNamed(o, "in")
		// the receiver is left as it was
		why := s.writesOutside(o, map[int]bool{})
		if why == "" {
			for _, k := range []string{"sm3.nx", "sm3.len"} {
				if t := s.fieldTerm(o, k); t == nil || !samePoly(t, pParam(k)) {
					why = k + " of the receiver is changed"
				}
			}
		}
		calls, why2 := s.cfCalls(o)
		if why == "" {
			why = why2
		}
		for _, c := range calls {
			if c.recv == "sm3" && why == "" {
				why = "the receiver's chaining value is advanced at " + c.ef.pos
			}
		}
		s.need("SUM-RECEIVER-UNCHANGED", why == "", "%s", why)
		if why != "" {
			continue
		}
		// padding
		pend := want{kind: "src", obj: xObj, off: pC(0)}
		why = s.finalBlocks(o, calls, nx0, pend, 0, pMul(pC(8), L0))
		s.need("SUM-PADDING", why == "", "%s", why)
		if why != "" {
			continue
		}
		why = s.chain(o, calls, func(h, idx int) string {
			g := s.d.gobj(o.st, h)
			if g == nil || !g.hasSnap || g.snapObj != hObj {
				return "the first compression does not start from a copy of the receiver's chaining value"
			}
			for _, ef := range o.st.geff[:idx] {
				if (ef.kind == "write" || ef.kind == "put" || ef.kind == "copy") && ef.obj == h {
					return "the copied chaining value is overwritten at " + ef.pos + " before the padding is compressed"
				}
			}
			return ""
		})
		s.need("SUM-PADDING", why == "", "%s", why)
		// result
		res, ok := gSliceOf(o.vals)
		if !ok {
			s.need("SUM-RESULT", false, "the result is not a slice the domain models")
			continue
		}
		s.need("SUM-RESULT", s.prove(o, res.ln, token.EQL, pAdd(inLen, pC(32))), "the result has length %s; required len(in) + 32", res.ln)
		if inObj != 0 {
			why = s.content(o, res.obj, len(o.st.geff), res.off, pAdd(res.off, inLen), want{kind: "src", obj: inObj, off: pC(0)}, 0)
			s.need("SUM-RESULT", why == "", "the result does not start with in: %s", why)
		}
		why = s.digest(o, res.obj, pAdd(res.off, inLen), calls[len(calls)-1])
		s.need("SUM-RESULT", why == "", "%s", why)
	}
	s.r.Count("sum_outcomes", len(s.outs))
	s.flush(map[string]string{
		"SUM-RECEIVER-UNCHANGED": "Sum leaves nx, len, x and the chaining value of its receiver as they were (the hash can continue)",
		"SUM-PADDING":            "on a copy of the chaining value Sum compresses exactly pending || 0x80 || zeros || be64(8*len): one block when nx <= 55, two otherwise",
		"SUM-RESULT":             "Sum returns in followed by the big-endian words of the chaining value after the last padding block",
	})
}

func gSliceOf(vals []sVal) (gSlice, bool) {
	if len(vals) != 1 {
		return gSlice{}, false
	}
	g, ok := vals[0].(gSlice)
	return g, ok
}

func c04OneShot(r *Report, p *Prog) {
	s := newStreamRun(r, p, "sm3.SumSM3", nil)
	if s == nil {
		return
	}
	n := pOp("len", pParam("data"))
	for _, o := range s.outs {
		dataObj := s.objNamed(o, "data")
		if why := s.writesOutside(o, map[int]bool{}); why != "" {
			s.need("ONE-SHOT", false, "%s", why)
			continue
		}
		calls, why := s.cfCalls(o)
		if why != "" || len(calls) == 0 {
			s.need("ONE-SHOT", false, "no compression sequence: %s", why)
			continue
		}
		// the leading calls read data[64j : 64j+64); the last one or two read the padded tail
		ok := false
		var lastWhy string
		for _, m := range []int{1, 2} {
			if len(calls) < m {
				continue
			}
			body, fin := calls[:len(calls)-m], calls[len(calls)-m:]
			pos := pC(0)
			why := ""
			for _, c := range body {
				if w := s.content(o, c.ef.obj, c.idx, c.ef.off, pAdd(c.ef.off, pC(64)), want{kind: "src", obj: dataObj, off: pos}, 0); w != "" {
					why = fmt.Sprintf("the block compressed at %s is not data[%s:+64]: %s", c.ef.pos, pos, w)
					break
				}
				if c.rep != nil {
					pos = pAdd(pos, pMul(pC(64), c.rep.k))
				} else {
					pos = pAdd(pos, pC(64))
				}
			}
			if why == "" {
				r0 := pAdd(n, pNeg(pos))
				if !(s.prove(o, r0, token.GEQ, pC(0)) && s.prove(o, r0, token.LEQ, pC(63))) {
					why = fmt.Sprintf("after the whole blocks %s bytes remain, not provably 0..63", r0)
				} else {
					why = s.finalBlocks(o, fin, r0, want{kind: "src", obj: dataObj, off: pos}, dataObj, pMul(pC(8), n))
				}
			}
			if why == "" {
				ok = true
				break
			}
			lastWhy = why
		}
		s.need("ONE-SHOT", ok, "%s", lastWhy)
		if !ok {
			continue
		}
		why = s.chain(o, calls, func(h, idx int) string {
			for i, iv := range sm3IV {
				if w := s.content(o, h, idx, pC(int64(4*i)), pC(int64(4*i+4)), want{kind: "val", t: pC(int64(iv)), n: 4}, 0); w != "" {
					return fmt.Sprintf("word %d of the chaining value before the first block is not the standard initial value: %s", i, w)
				}
			}
			return ""
		})
		s.need("ONE-SHOT", why == "", "%s", why)
		// result: [32]byte value
		if len(o.vals) == 1 {
			if av, isArr := o.vals[0].(gArrVal); isArr {
				why = s.digestAt(o, av.obj, av.at, calls[len(calls)-1])
				s.need("ONE-SHOT", why == "", "%s", why)
				continue
			}
		}
		s.need("ONE-SHOT", false, "the result is not an array value the domain models")
	}
	s.r.Count("oneshot_outcomes", len(s.outs))
	s.flush(map[string]string{
		"ONE-SHOT": "SumSM3 compresses, from the standard initial value, the blocks of data in order and then data's tail || 0x80 || zeros || be64(8*len(data)), and returns the big-endian words of the final chaining value",
	})
}

func (s *streamRun) digestAt(o protoOutcome, obj, at int, last cfCall) string {
	hObj := s.fieldArr(o, last.recv, "h")
	for i := int64(0); i < 8; i++ {
		w := want{kind: "ld", obj: hObj, off: pC(4 * i), n: 4, min: last.idx + 1}
		if why := s.content(o, obj, at, pC(4*i), pC(4*i+4), w, 0); why != "" {
			return fmt.Sprintf("digest bytes %d..%d: %s", 4*i, 4*i+3, why)
		}
	}
	return ""
}

func c04ResetNew(r *Report, p *Prog) {
	if s := newStreamRun(r, p, "sm3.(*SM3).Reset", nil); s != nil {
		for _, o := range s.outs {
			hObj := s.fieldArr(o, "sm3", "h")
			for i, iv := range sm3IV {
				why := "the chaining value is not an object of the domain"
				if hObj != 0 {
					why = s.content(o, hObj, len(o.st.geff), pC(int64(4*i)), pC(int64(4*i+4)), want{kind: "val", t: pC(int64(iv)), n: 4}, 0)
				}
				s.need("RESET-STATE", why == "", "h[%d]: %s", i, why)
			}
			for _, k := range []string{"sm3.nx", "sm3.len"} {
				t := s.fieldTerm(o, k)
				s.need("RESET-STATE", t != nil && samePoly(t, pC(0)), "%s is %s after Reset; required 0", k, t)
			}
		}
		s.flush(map[string]string{"RESET-STATE": "Reset stores the standard initial value into h and sets nx = 0 and len = 0, whatever the state before"})
	}
	// New: a fresh value in the Reset state
	if s := newStreamRun(r, p, "sm3.New", nil); s != nil {
		for _, o := range s.outs {
			recv := ""
			if len(o.vals) == 1 {
				if rv, ok := o.vals[0].(gRecv); ok && strings.HasPrefix(rv.name, "local ") {
					recv = rv.name
				}
			}
			s.need("NEW-STATE", recv != "" && len(o.vals) == 1 && !isNilVal(o.vals[0]), "New does not return a freshly allocated hash state")
			if recv == "" {
				continue
			}
			hObj := s.fieldArr(o, recv, "h")
			for i, iv := range sm3IV {
				why := "the chaining value is not an object of the domain"
				if hObj != 0 {
					why = s.content(o, hObj, len(o.st.geff), pC(int64(4*i)), pC(int64(4*i+4)), want{kind: "val", t: pC(int64(iv)), n: 4}, 0)
				}
				s.need("NEW-STATE", why == "", "h[%d]: %s", i, why)
			}
			for _, k := range []string{recv + ".nx", recv + ".len"} {
				t := s.fieldTerm(o, k)
				s.need("NEW-STATE", t != nil && samePoly(t, pC(0)), "%s is %s in the value New returns; required 0", k, t)
			}
		}
		s.flush(map[string]string{"NEW-STATE": "New returns a freshly allocated value holding the standard initial value with nx = 0 and len = 0"})
	}
}

func debugStreamRules(args []string) {
	repo := "/repo"
	if v := osGetenv("SMGO_REPO"); v != "" {
		repo = v
	}
	p, err := LoadRepo(repo, "amd64")
	if err != nil {
		fmt.Println(err)
		return
	}
	r := NewReport("Cxx", "quick", "other")
	c04WriteInvariant(r, p)
	c04Sum(r, p)
	c04OneShot(r, p)
	c04ResetNew(r, p)
	for _, o := range r.Obls {
		fmt.Printf("%-10s %s | %s : %s\n", o.Status, o.Rule, o.Key, trunc(o.Detail, 700))
	}
}
