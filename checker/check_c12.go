package main

import (
	"fmt"
	"go/ast"
	"go/types"
	"strings"

	"golang.org/x/tools/go/ssa"
)

func init() { register("C12", "other", checkC12) }

func checkC12(c *Ctx, r *Report) {
	r.Explanation = "Decided on the outcomes of a path-by-path interpretation in the protocol domain (checker/proto*.go) of GenerateKey (KEYGEN-DRAW: the key is the last full 32-byte draw; KEYGEN-RANGE: 1 <= d <= n-2 follows from the path condition; KEYGEN-PUBLIC: the coordinates are the 32-byte encodings of affine [d]G; KEYGEN-REDRAW; KEYGEN-SOURCE; KEYGEN-ERROR-RESULTS), DerivePublic (DERIVE-RANGE, DERIVE-PUBLIC, DERIVE-ERROR-RESULTS), TestPrivateKey (KEYTEST-ACCEPT / KEYTEST-REJECT: 0 exactly for keys of at most 32 bytes in [1, n-2]) and CheckOnCurve (ONCURVE-ACCEPT: true only after canonical decoding of both coordinates and a successful curve check); plus the curve-equation formula and the decoder inventories shared with C03/C15/C16. NOT decided: the values of [d]G (C14)."
	r.Trusted = []string{"go/ssa", "G has prime order n: [d]G is finite for d in [1, n-1]", "io.ReadFull contract", "contracts summarised in checker/proto2.go"}
	p, err := LoadRepo(c.Repo, "amd64")
	if err != nil {
		r.Fatalf("%v", err)
		return
	}
	protoKeys(r, p)
	protoDecoders(r, p)
	r.Floor("protocol_paths", 6)
}

// c12ValidatedScalars: each call of internal.ScalarBaseMult from package sm2 is dominated by a validation of its argument.
func c12ValidatedScalars(r *Report, p *Prog, f *Folder) {
	for _, fn := range p.RepoFuncs() {
		if fn.Pkg == nil || shortPkg(fn.Pkg.Pkg.Path()) != "sm2" || len(fn.Blocks) == 0 {
			continue
		}
		for _, b := range fn.Blocks {
			for _, in := range b.Instrs {
				call, ok := in.(*ssa.Call)
				if !ok {
					continue
				}
				cal := call.Call.StaticCallee()
				if cal == nil || cal.Name() != "ScalarBaseMult" || shortPkg(cal.Pkg.Pkg.Path()) != "sm2/internal" {
					continue
				}
				r.Count("scalar_base_mult_calls", 1)
				ps := newPathSym(p, fn, f)
				ps.WalkTo(b)
				// name of the argument at the call: walk instructions of b up to the call
				arg := ps.S(call.Call.Args[0])
				key := fmt.Sprintf("%s -> internal.ScalarBaseMult(%s)", p.FuncName(fn), arg)
				cmpN := xf("ConstantTimeCmp", arg, "bytes32(N)", "32")
				cmpN1 := xf("ConstantTimeCmp", arg, "bytes32(N-1)", "32")
				cmp0 := xf("ConstantTimeCompare", arg, "zeros(32)")
				byTest := ps.FindGuard("TestPrivateKey("+arg+") == 0") != nil
				upper := ps.FindGuard(cmpN+" < 0", cmpN+" == -1", cmpN1+" < 0", cmpN1+" == -1") != nil
				nonzero := ps.FindGuard(cmp0+" != 1", cmp0+" == 0") != nil
				r.Check(byTest || (upper && nonzero), "UNVALIDATED-SCALAR", key, p.InstrPos(call), fmt.Sprintf("scalar is range-tested before base-point multiplication (TestPrivateKey: %v; k < n: %v; k != 0: %v); guards: %s", byTest, upper, nonzero, strings.Join(ps.GuardTexts(), " ; ")))
				// L-IDX on the encoded public key: slices [1:33], [33:] need the 65-byte encoding
			}
		}
	}
	if fn := p.MustFunc(r, "sm2.DerivePublic"); fn != nil {
		for _, b := range fn.Blocks {
			ret, ok := b.Instrs[len(b.Instrs)-1].(*ssa.Return)
			if !ok || !isNilConst(retVals(ret)[2]) {
				continue
			}
			ps := newPathSym(p, fn, f)
			ps.WalkTo(b)
			enc := xf("SM2Point.Bytes", xf("ScalarBaseMult", "priv"))
			got := []string{normText(ps.S(retVals(ret)[0])), normText(ps.S(retVals(ret)[1]))}
			r.Check(got[0] == enc+"[1:33]" && got[1] == enc+"[33:]", "KEYPAIR-EXPRESSION", "sm2.DerivePublic", p.InstrPos(ret), fmt.Sprintf("returns (%s)", strings.Join(got, ", ")))
			checkInventory(r, p, ps, "sm2.DerivePublic", p.InstrPos(ret), []guardReq{
				{"(priv, TestPrivateKey = 0, error)", []string{"TestPrivateKey(priv) == 0"}, "error"},
				{"(ScalarBaseMult, error)", []string{"err(ScalarBaseMult(priv)) == nil"}, "error"},
			}, nil)
		}
	}
}

// c12CurveEquation: the two operands of Equal in Sm2CheckOnCurve are y^2 and x^3 - 3x + b as polynomials, and nil is returned only when they are equal.
func c12CurveEquation(r *Report, p *Prog, f *Folder) {
	pk := p.Pkgs["sm2/internal"]
	fd := findFuncDecl(pk, "", "Sm2CheckOnCurve")
	fn := p.MustFunc(r, "sm2/internal.Sm2CheckOnCurve")
	if fd == nil || fn == nil {
		r.Fatalf("unresolved anchor: sm2/internal.Sm2CheckOnCurve")
		return
	}
	bObj := pk.Types.Scope().Lookup("sm2B")
	X, Y, B := polyVar(0), polyVar(1), polyVar(6)
	var params []types.Object
	for _, fl := range fd.Type.Params.List {
		for _, n := range fl.Names {
			params = append(params, pk.TypesInfo.Defs[n])
		}
	}
	ev := &slEval{p: p, pk: pk, dom: polyDomain{}, vars: map[types.Object]*slCell{}, fields: map[string]*slCell{}, globals: map[types.Object]*slCell{}, outFields: map[string]bool{}, inputRecvs: map[types.Object]bool{}}
	if len(params) != 2 {
		r.Fatalf("Sm2CheckOnCurve: expected (x, y)")
		return
	}
	ev.vars[params[0]] = &slCell{id: "x", val: X}
	ev.vars[params[1]] = &slCell{id: "y", val: Y}
	ev.globalInit = func(obj types.Object) (interface{}, bool) {
		if obj == bObj {
			return B, true
		}
		return nil, false
	}
	var cmp *ast.CallExpr
	for _, st := range fd.Body.List {
		if is, ok := st.(*ast.IfStmt); ok {
			ast.Inspect(is.Cond, func(n ast.Node) bool {
				if c, ok := n.(*ast.CallExpr); ok {
					if se, ok := c.Fun.(*ast.SelectorExpr); ok && se.Sel.Name == "Equal" {
						cmp = c
					}
				}
				return true
			})
			break
		}
		ev.stmt(st)
	}
	pos := p.Pos(fd.Pos())
	if cmp == nil || len(ev.undecided) > 0 {
		r.Undecided("CURVE-EQUATION", "sm2/internal.Sm2CheckOnCurve", pos, "cannot evaluate the compared expressions: "+strings.Join(ev.undecided, "; "))
		return
	}
	a := ev.cellOf(cmp.Fun.(*ast.SelectorExpr).X, false)
	b := ev.cellOf(cmp.Args[0], false)
	if a == nil || b == nil || a.val == nil || b.val == nil {
		r.Undecided("CURVE-EQUATION", "sm2/internal.Sm2CheckOnCurve", pos, "operands of Equal not resolved")
		return
	}
	lhs := Y.Mul(Y)
	rhs := X.Mul(X).Mul(X).Sub(polyConst(3).Mul(X)).Add(B)
	pa, pb := a.val.(*Poly), b.val.(*Poly)
	ok := (pa.Equal(lhs) && pb.Equal(rhs)) || (pa.Equal(rhs) && pb.Equal(lhs))
	r.Check(ok, "CURVE-EQUATION", "sm2/internal.Sm2CheckOnCurve", pos, fmt.Sprintf("compares %s with %s; the curve equation is y^2 = x^3 - 3x + b", pa.String(), pb.String()))
	// nil only under Equal == 1
	for _, blk := range fn.Blocks {
		ret, isRet := blk.Instrs[len(blk.Instrs)-1].(*ssa.Return)
		if !isRet || !isNilConst(retVals(ret)[0]) {
			continue
		}
		ps := newPathSym(p, fn, f)
		ps.WalkTo(blk)
		found := false
		for _, g := range ps.Guards {
			if strings.HasPrefix(g.Text, "SM2Element.Equal(") && strings.HasSuffix(g.Text, " == 1") {
				found = true
			}
		}
		r.Check(found, "GUARD", "sm2/internal.Sm2CheckOnCurve: nil only when Equal == 1", p.InstrPos(ret), "guards: "+strings.Join(ps.GuardTexts(), " ; "))
	}
}
