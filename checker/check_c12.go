package main

import (
	"fmt"
	"go/ast"
	"go/types"
	"strings"

	"golang.org/x/tools/go/ssa"
)

func init() { register("C12", "other", checkC12) }

func checkC12(c *Ctx, r *Report) {
	r.Explanation = "Decided: (a) the accept/redraw skeleton of GenerateKey: one 32-byte draw per candidate, the only exit of the draw loop is TestPrivateKey(candidate) == 0, a rejected candidate restarts the draw, the returned private key is the tested buffer and the public key is the affine encoding of ScalarBaseMult of that very buffer; (b) every `return 0` of TestPrivateKey is dominated by the zero test and (for 32-byte keys) by `< n-1` with n-1 the folded constant; (c) validated scalars: every call of internal.ScalarBaseMult in package sm2 takes a scalar that is dominated by TestPrivateKey(...) == 0 or by the nonce guards k < n and k != 0; DerivePublic returns an error for every key TestPrivateKey rejects; (d) CheckOnCurve accepts only through both canonical coordinate decoders and Sm2CheckOnCurve(...) == nil, whose two compared field expressions are, as polynomials, y^2 and x^3 - 3x + b with b the resolved curve constant; (e) the slices [1:33] and [33:] of the encoded public key are taken from a 65-byte encoding (the 1-byte infinity encoding is excluded because a validated scalar in [1, n-1] cannot give the point at infinity: G has prime order n). NOT decided: that the returned coordinates equal [d]G as values (C14/C18)."
	r.Trusted = []string{"go/ssa", "G has prime order n: [d]G is finite for d in [1, n-1]", "io.ReadFull contract"}
	p, err := LoadRepo(c.Repo, "amd64")
	if err != nil {
		r.Fatalf("%v", err)
		return
	}
	f := NewFolder(p)
	// (a) GenerateKey
	if fn := p.MustFunc(r, "sm2.GenerateKey"); fn != nil {
		var accept []*ssa.Return
		for _, b := range fn.Blocks {
			if ret, ok := b.Instrs[len(b.Instrs)-1].(*ssa.Return); ok && isNilConst(retVals(ret)[3]) {
				accept = append(accept, ret)
			}
		}
		if len(accept) != 1 {
			r.Viol("SINGLE-ACCEPT", "sm2.GenerateKey", p.Pos(fn.Pos()), fmt.Sprintf("%d returns carry a nil error; exactly one expected", len(accept)))
		} else {
			ret := accept[0]
			ps := newPathSym(p, fn, f)
			ps.WalkTo(ret.Block())
			draw := findDrawBlock(p, fn)
			K := "draw(rand)"
			// the candidate must be proven to be in [1, n-2]: directly by TestPrivateKey, or by guards inside a draw helper
			cmpKN1 := xf("ConstantTimeCmp", K, "bytes32(N-1)", "32")
			cmpK0 := xf("ConstantTimeCompare", K, "zeros(32)")
			if ps.FindGuard("TestPrivateKey("+K+") == 0") != nil {
				checkInventory(r, p, ps, "sm2.GenerateKey", p.InstrPos(ret), []guardReq{
					{"(draw, error)", []string{"err(ReadFull(rand)) == nil"}, "error-loose"}, // the error arm returns the (partially filled) private buffer next to the error; public key results are decided under C19
					{"(candidate, TestPrivateKey = 0, restart)", []string{"TestPrivateKey(" + K + ") == 0"}, "restart"},
				}, draw)
			} else {
				checkInventory(r, p, ps, "sm2.GenerateKey", p.InstrPos(ret), []guardReq{
					{"(draw, error)", []string{"err(ReadFull(rand)) == nil"}, "error-loose"}, // the error arm returns the (partially filled) private buffer next to the error; public key results are decided under C19
					{"(candidate, <, n-1, restart)", []string{cmpKN1 + " < 0", cmpKN1 + " == -1"}, "restart"},
					{"(candidate, !=, 0, restart)", []string{cmpK0 + " != 1", cmpK0 + " == 0"}, "restart"},
				}, draw)
			}
			enc := xf("SM2Point.Bytes", xf("ScalarBaseMult", K))
			got := []string{normText(ps.S(retVals(ret)[0])), normText(ps.S(retVals(ret)[1])), normText(ps.S(retVals(ret)[2]))}
			ok := got[0] == K && got[1] == enc+"[1:33]" && got[2] == enc+"[33:]"
			r.Check(ok, "KEYPAIR-EXPRESSION", "sm2.GenerateKey", p.InstrPos(ret), fmt.Sprintf("returns (%s); expected (%s, %s[1:33], %s[33:])", strings.Join(got, ", "), K, enc, enc))
			r.Check(ps.draws == 1, "DRAW-UNIT", "sm2.GenerateKey one draw per candidate", p.InstrPos(ret), fmt.Sprintf("%d draws on the accepting path", ps.draws))
			if dc, buf := findDraw(p, fn); dc != nil {
				env := NewLinEnv(p, fn)
				ls, ok := env.Len(buf)
				r.Check(ok && len(ls) == 1 && ls[0].IsConst() && ls[0].C == 32, "DRAW-UNIT", "sm2.GenerateKey draws 32 bytes", p.InstrPos(dc), fmt.Sprintf("buffer length %v", linStrs(ls)))
			}
		}
	}
	// (b)
	c12TestPrivateKey(r, p, f)
	// (c) validated scalars + DerivePublic
	c12ValidatedScalars(r, p, f)
	// (d) CheckOnCurve
	if fn := p.MustFunc(r, "sm2.CheckOnCurve"); fn != nil {
		n := 0
		for _, b := range fn.Blocks {
			ret, ok := b.Instrs[len(b.Instrs)-1].(*ssa.Return)
			if !ok || isFalseConst(retVals(ret)[0]) {
				continue
			}
			n++
			ps := newPathSym(p, fn, f)
			ps.WalkTo(b)
			X, Y := xf("SM2Element.SetBytes", "x"), xf("SM2Element.SetBytes", "y")
			checkInventory(r, p, ps, "sm2.CheckOnCurve", p.InstrPos(ret), []guardReq{
				{"(x canonical 32 bytes, error)", []string{"err(" + X + ") == nil"}, "false"},
				{"(y canonical 32 bytes, error)", []string{"err(" + Y + ") == nil"}, "false"},
			}, nil)
			got := ps.S(retVals(ret)[0])
			r.Check(got == "("+xf("Sm2CheckOnCurve", X, Y)+" == nil)", "VERDICT-EXPRESSION", "sm2.CheckOnCurve", p.InstrPos(ret), "verdict is "+got)
		}
		r.Check(n == 1, "SINGLE-ACCEPT", "sm2.CheckOnCurve", p.Pos(fn.Pos()), fmt.Sprintf("%d true-capable returns", n))
	}
	c12CurveEquation(r, p, f)
	c03Decoders(r, p, f)
	r.Floor("required_guards", 12)
	r.Floor("scalar_base_mult_calls", 3)
}

// c12ValidatedScalars: each call of internal.ScalarBaseMult from package sm2 is dominated by a validation of its argument.
func c12ValidatedScalars(r *Report, p *Prog, f *Folder) {
	for _, fn := range p.RepoFuncs() {
		if fn.Pkg == nil || shortPkg(fn.Pkg.Pkg.Path()) != "sm2" || len(fn.Blocks) == 0 {
			continue
		}
		for _, b := range fn.Blocks {
			for _, in := range b.Instrs {
				call, ok := in.(*ssa.Call)
				if !ok {
					continue
				}
				cal := call.Call.StaticCallee()
				if cal == nil || cal.Name() != "ScalarBaseMult" || shortPkg(cal.Pkg.Pkg.Path()) != "sm2/internal" {
					continue
				}
				r.Count("scalar_base_mult_calls", 1)
				ps := newPathSym(p, fn, f)
				ps.WalkTo(b)
				// name of the argument at the call: walk instructions of b up to the call
				arg := ps.S(call.Call.Args[0])
				key := fmt.Sprintf("%s -> internal.ScalarBaseMult(%s)", p.FuncName(fn), arg)
				cmpN := xf("ConstantTimeCmp", arg, "bytes32(N)", "32")
				cmpN1 := xf("ConstantTimeCmp", arg, "bytes32(N-1)", "32")
				cmp0 := xf("ConstantTimeCompare", arg, "zeros(32)")
				byTest := ps.FindGuard("TestPrivateKey("+arg+") == 0") != nil
				upper := ps.FindGuard(cmpN+" < 0", cmpN+" == -1", cmpN1+" < 0", cmpN1+" == -1") != nil
				nonzero := ps.FindGuard(cmp0+" != 1", cmp0+" == 0") != nil
				r.Check(byTest || (upper && nonzero), "UNVALIDATED-SCALAR", key, p.InstrPos(call), fmt.Sprintf("scalar is range-tested before base-point multiplication (TestPrivateKey: %v; k < n: %v; k != 0: %v); guards: %s", byTest, upper, nonzero, strings.Join(ps.GuardTexts(), " ; ")))
				// L-IDX on the encoded public key: slices [1:33], [33:] need the 65-byte encoding
			}
		}
	}
	if fn := p.MustFunc(r, "sm2.DerivePublic"); fn != nil {
		for _, b := range fn.Blocks {
			ret, ok := b.Instrs[len(b.Instrs)-1].(*ssa.Return)
			if !ok || !isNilConst(retVals(ret)[2]) {
				continue
			}
			ps := newPathSym(p, fn, f)
			ps.WalkTo(b)
			enc := xf("SM2Point.Bytes", xf("ScalarBaseMult", "priv"))
			got := []string{normText(ps.S(retVals(ret)[0])), normText(ps.S(retVals(ret)[1]))}
			r.Check(got[0] == enc+"[1:33]" && got[1] == enc+"[33:]", "KEYPAIR-EXPRESSION", "sm2.DerivePublic", p.InstrPos(ret), fmt.Sprintf("returns (%s)", strings.Join(got, ", ")))
			checkInventory(r, p, ps, "sm2.DerivePublic", p.InstrPos(ret), []guardReq{
				{"(priv, TestPrivateKey = 0, error)", []string{"TestPrivateKey(priv) == 0"}, "error"},
				{"(ScalarBaseMult, error)", []string{"err(ScalarBaseMult(priv)) == nil"}, "error"},
			}, nil)
		}
	}
}

// c12CurveEquation: the two operands of Equal in Sm2CheckOnCurve are y^2 and x^3 - 3x + b as polynomials, and nil is returned only when they are equal.
func c12CurveEquation(r *Report, p *Prog, f *Folder) {
	pk := p.Pkgs["sm2/internal"]
	fd := findFuncDecl(pk, "", "Sm2CheckOnCurve")
	fn := p.MustFunc(r, "sm2/internal.Sm2CheckOnCurve")
	if fd == nil || fn == nil {
		r.Fatalf("unresolved anchor: sm2/internal.Sm2CheckOnCurve")
		return
	}
	bObj := pk.Types.Scope().Lookup("sm2B")
	X, Y, B := polyVar(0), polyVar(1), polyVar(6)
	var params []types.Object
	for _, fl := range fd.Type.Params.List {
		for _, n := range fl.Names {
			params = append(params, pk.TypesInfo.Defs[n])
		}
	}
	ev := &slEval{p: p, pk: pk, dom: polyDomain{}, vars: map[types.Object]*slCell{}, fields: map[string]*slCell{}, globals: map[types.Object]*slCell{}, outFields: map[string]bool{}, inputRecvs: map[types.Object]bool{}}
	if len(params) != 2 {
		r.Fatalf("Sm2CheckOnCurve: expected (x, y)")
		return
	}
	ev.vars[params[0]] = &slCell{id: "x", val: X}
	ev.vars[params[1]] = &slCell{id: "y", val: Y}
	ev.globalInit = func(obj types.Object) (interface{}, bool) {
		if obj == bObj {
			return B, true
		}
		return nil, false
	}
	var cmp *ast.CallExpr
	for _, st := range fd.Body.List {
		if is, ok := st.(*ast.IfStmt); ok {
			ast.Inspect(is.Cond, func(n ast.Node) bool {
				if c, ok := n.(*ast.CallExpr); ok {
					if se, ok := c.Fun.(*ast.SelectorExpr); ok && se.Sel.Name == "Equal" {
						cmp = c
					}
				}
				return true
			})
			break
		}
		ev.stmt(st)
	}
	pos := p.Pos(fd.Pos())
	if cmp == nil || len(ev.undecided) > 0 {
		r.Undecided("CURVE-EQUATION", "sm2/internal.Sm2CheckOnCurve", pos, "cannot evaluate the compared expressions: "+strings.Join(ev.undecided, "; "))
		return
	}
	a := ev.cellOf(cmp.Fun.(*ast.SelectorExpr).X, false)
	b := ev.cellOf(cmp.Args[0], false)
	if a == nil || b == nil || a.val == nil || b.val == nil {
		r.Undecided("CURVE-EQUATION", "sm2/internal.Sm2CheckOnCurve", pos, "operands of Equal not resolved")
		return
	}
	lhs := Y.Mul(Y)
	rhs := X.Mul(X).Mul(X).Sub(polyConst(3).Mul(X)).Add(B)
	pa, pb := a.val.(*Poly), b.val.(*Poly)
	ok := (pa.Equal(lhs) && pb.Equal(rhs)) || (pa.Equal(rhs) && pb.Equal(lhs))
	r.Check(ok, "CURVE-EQUATION", "sm2/internal.Sm2CheckOnCurve", pos, fmt.Sprintf("compares %s with %s; the curve equation is y^2 = x^3 - 3x + b", pa.String(), pb.String()))
	// nil only under Equal == 1
	for _, blk := range fn.Blocks {
		ret, isRet := blk.Instrs[len(blk.Instrs)-1].(*ssa.Return)
		if !isRet || !isNilConst(retVals(ret)[0]) {
			continue
		}
		ps := newPathSym(p, fn, f)
		ps.WalkTo(blk)
		found := false
		for _, g := range ps.Guards {
			if strings.HasPrefix(g.Text, "SM2Element.Equal(") && strings.HasSuffix(g.Text, " == 1") {
				found = true
			}
		}
		r.Check(found, "GUARD", "sm2/internal.Sm2CheckOnCurve: nil only when Equal == 1", p.InstrPos(ret), "guards: "+strings.Join(ps.GuardTexts(), " ; "))
	}
}
