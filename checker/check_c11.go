package main

import (
	"fmt"
	"go/token"
	"go/types"
	"os"
	"sort"
	"strings"

	"golang.org/x/tools/go/ssa"
)

func init() { register("C11", "other", checkC11) }

func L(s string) *Lin { return linTerm(s, true) }

func tagSizePre() []Fact {
	return []Fact{{E: L("tagSize").Sub(linConst(12))}, {E: linConst(16).Sub(L("tagSize"))}}
}

// asmContracts: per routine, the bytes guaranteed behind each pointer parameter (over the routine's scalar parameters),
// scalar preconditions, and the allowed total advance of streamed parameters. Verified on both sides:
// EXTENT (the routine stays inside) and CALLSITE (every Go caller provides it).
func asmContracts(arch string) map[string]*xContract {
	c := map[string]*xContract{}
	blk := func(n int64) *xContract {
		return &xContract{size: map[string]*Lin{"rk": linConst(128), "dst": linConst(n), "src": linConst(n)}, overlap: map[string][]string{"src": {"dst"}}}
	}
	c["expandKeyAsm"] = &xContract{size: map[string]*Lin{"key": linConst(16), "enc": linConst(128), "dec": linConst(128)}}
	c["cryptoBlockAsm"], c["cryptoBlockAsmX2"], c["cryptoBlockAsmX4"], c["cryptoBlockAsmX8"] = blk(16), blk(32), blk(64), blk(128)
	c["gHashBlocks"] = &xContract{
		size:       map[string]*Lin{"H": linConst(16), "tag": linConst(16), "data": L("count").Scale(16)},
		pre:        []Fact{{E: L("count").Sub(linConst(1))}},
		consumeSet: map[string][]*Lin{"data": {L("count").Scale(16)}},
	}
	if arch == "amd64" {
		c["cryptoBlockAsmX16"] = blk(256)
		c["copyAsm"] = &xContract{size: map[string]*Lin{"dst": L("len"), "src": L("len")}, pre: []Fact{{E: L("len")}}, consumeSet: map[string][]*Lin{"dst": {L("len")}, "src": {L("len")}}}
		c["needExpand"] = &xContract{size: map[string]*Lin{}}
		c["transpose4x4"] = &xContract{size: map[string]*Lin{"dst": linConst(64), "src": linConst(64)}}
		c["transpose1x4"] = &xContract{size: map[string]*Lin{"dst": linConst(64), "src": linConst(64)}}
		c["concatenateX"] = &xContract{size: map[string]*Lin{"X1": linConst(64), "X2": linConst(16), "X3": linConst(16), "X4": linConst(16)}}
		c["concatenateY"] = &xContract{size: map[string]*Lin{"Y1": linConst(64), "Y2": linConst(64)}}
		pl, cl, al, nl := L("plaintext.len"), L("ciphertext.len"), L("additionalData.len"), L("nonce.len")
		c["sealAsm"] = &xContract{
			size:       map[string]*Lin{"roundKeys": linConst(128), "dst": pl.Add(L("tagSize")), "nonce": nl, "plaintext": pl, "additionalData": al, "temp": linConst(32)},
			pre:        tagSizePre(),
			consumeSet: map[string][]*Lin{"nonce": {nl}, "plaintext": {pl}, "additionalData": {al}, "dst": {pl, pl.Add(L("tagSize"))}},
			overlap:    map[string][]string{"plaintext": {"dst"}},
			scratch:    map[string]int{"temp": 32},
		}
		c["openAsm"] = &xContract{
			size:       map[string]*Lin{"roundKeys": linConst(128), "dst": cl.Sub(L("tagSize")), "nonce": nl, "ciphertext": cl, "additionalData": al, "temp": linConst(32)},
			pre:        append(tagSizePre(), Fact{E: cl.Sub(L("tagSize"))}),
			consumeSet: map[string][]*Lin{"nonce": {nl}, "ciphertext": {cl.Sub(L("tagSize")), cl}, "additionalData": {al}, "dst": {cl.Sub(L("tagSize"))}},
			mayBeNil:   map[string]bool{"dst": true},
			overlap:    map[string][]string{"ciphertext": {"dst"}},
			scratch:    map[string]int{"temp": 32},
		}
	} else {
		c["cryptoBlockAsmX16Internal"] = &xContract{size: map[string]*Lin{"rk": linConst(128), "dst": linConst(256), "src": linConst(256), "tmp": linConst(256)}, overlap: map[string][]string{"src": {"dst", "tmp"}}}
		for _, n := range []int64{256, 128, 64, 32, 16} {
			c[fmt.Sprintf("xor%d", n)] = &xContract{size: map[string]*Lin{"dst": linConst(n), "src1": linConst(n), "src2": linConst(n)}, overlap: map[string][]string{"src2": {"dst"}, "src1": {"dst"}}}
		}
	}
	return c
}

func checkC11(c *Ctx, r *Report) {
	r.Explanation = "Assume-guarantee over the Go/assembler boundary. EXTENT (A4): for every reachable assembler routine on amd64 and arm64, an abstract interpretation of the general registers over affine forms with branch facts, loop induction variables and quotient/remainder symbols gives the byte extent of every memory access relative to its parameter base; each must lie inside the routine's contract (bytes guaranteed behind each pointer as a function of the length parameters) on every path; CALLSITE (G3): every Go call of a body-less function passes arguments that guarantee the contract under the guards that dominate the call (&x[i] guarantees len(x)-i elements; nil guarantees 0 bytes). L-RESLICE: no API method reslices a parameter beyond its length without a dominating length guard (the silent read-past-len idiom). ALIGNED-ONLY: no aligned-only opcode has a memory operand. Together: arguments too short cause a panic, never a silent out-of-range access."
	r.Trusted = []string{"go tool asm -S listing", "opcode table (access widths)", "g.tagSize is in [12,16] when Seal/Open run: crypto/cipher validates the tag size before calling NewGCM and Open re-checks the lower bound", "go/ssa"}
	for _, arch := range []string{"amd64", "arm64"} {
		u, p := loadAsmBound(c, r, arch)
		if u == nil {
			return
		}
		contracts := asmContracts(arch)
		dataSize := map[string]int{}
		for _, d := range u.DataSyms() {
			dataSize[d.Name] = d.Size
		}
		for _, rt := range u.Routines {
			if !rt.HasDecl {
				continue
			}
			key := arch + "/" + rt.Name
			con := contracts[rt.Name]
			if con == nil {
				r.Undecided("EXTENT", key, "sm4/"+rt.File, "no contract for this routine in the checker")
				continue
			}
			flow := AnalyzeFlow(rt)
			if len(flow.Errors) > 0 {
				r.Fatalf("%s: %s", key, flow.Errors[0])
				continue
			}
			// contract parameter names are the Go declaration's names
			res := AnalyzeExtents(rt, flow, con, dataSize)
			for _, pr := range res.problems {
				r.Undecided("EXTENT", key, "sm4/"+rt.File, pr)
			}
			r.Count("routines_"+arch, 1)
			r.Count("path_states_max_"+arch, res.maxStates)
			var idxs []int
			for i := range res.accesses {
				idxs = append(idxs, i)
			}
			sort.Ints(idxs)
			nOK := 0
			ord := map[string]int{}
			for _, i := range idxs {
				acc := res.accesses[i]
				r.Count("accesses_"+arch, 1)
				if acc.mem.Aligned {
					r.Viol("ALIGNED-ONLY", fmt.Sprintf("%s %s", key, acc.instr.Op), acc.instr.Pos, "aligned-only opcode with a memory operand: faults on unaligned buffers: "+acc.instr.Raw)
				}
				if acc.status == 1 {
					nOK++
					continue
				}
				k := fmt.Sprintf("%s %s %s", key, acc.instr.Op, acc.param)
				ord[k]++
				what := "cannot be proved to stay inside"
				if acc.status == -1 {
					what = "definitely leaves"
				}
				dir := "load"
				if acc.mem.Store {
					dir = "store"
					if acc.mem.Load {
						dir = "read-modify-write"
					}
				}
				r.Viol("EXTENT", fmt.Sprintf("%s#%d", k, ord[k]), acc.instr.Pos, fmt.Sprintf("%d-byte %s %s the bytes guaranteed for its parameter: %s — %s", acc.width, dir, what, acc.instr.Raw, acc.detail))
			}
			r.Ok("EXTENT", key, "sm4/"+rt.File, fmt.Sprintf("%d memory accesses proved inside their parameter's contract on every path (%d path states at most)", nOK, res.maxStates))
			// CONSUMPTION obligations (a functional necessary condition, not a memory-safety one) are reported under C07 and C10
		}
		// the Go callers: Seal, Open (with ensureCapacity), the Block methods and the constructor in the glue domain, path by
		// path; the remaining helpers by dominating-guard facts
		fam := map[string]bool{"C11": true}
		glueGCM(r, p, arch, fam)
		glueBlocks(r, p, arch, fam)
		if g := newGlueRun(r, p, arch, "sm4.NewCipher", nil); g != nil {
			g.obligations("CALLSITE", "SLICE-BOUNDS", "INDEX-BOUNDS")
		}
		c11CallSites(r, p, arch, contracts)
	}
	p386, err := LoadRepo(c.Repo, "386")
	if err != nil {
		r.Fatalf("%v", err)
		return
	}
	glueBlocks(r, p386, "386", map[string]bool{"C11": true})
	if g := newGlueRun(r, p386, "386", "sm4.NewCipher", nil); g != nil {
		g.obligations("CALLSITE", "SLICE-BOUNDS", "INDEX-BOUNDS")
	}
	c11Reslice(r, p386, "386")
	if pa, err := LoadRepo(c.Repo, "amd64"); err == nil {
		c11Reslice(r, pa, "amd64")
	}
	extentPositiveControls(c, r)
	r.Floor("positive_controls", 2)
	r.Floor("routines_amd64", 8)
	r.Floor("routines_arm64", 6)
	r.Floor("accesses_amd64", 400)
	r.Floor("accesses_arm64", 120)
	r.Floor("asm_call_sites_arm64", 5)
	r.Floor("glue_obligations", 80)
}

// c11CallSites: every Go call of a body-less sm4 function guarantees the callee's contract.
func c11CallSites(r *Report, p *Prog, arch string, contracts map[string]*xContract) {
	for _, fn := range p.RepoFuncs() {
		if len(fn.Blocks) == 0 || fn.Pkg == nil || shortPkg(fn.Pkg.Pkg.Path()) != "sm4" {
			continue
		}
		if glueCovered(p, arch, fn) {
			continue
		}
		var env *LinEnv
		for _, b := range fn.Blocks {
			for _, in := range b.Instrs {
				call, ok := in.(*ssa.Call)
				if !ok {
					continue
				}
				cal := call.Call.StaticCallee()
				if cal == nil || cal.Pkg == nil || shortPkg(cal.Pkg.Pkg.Path()) != "sm4" {
					continue
				}
				con := contracts[cal.Name()]
				if con == nil && arch == "arm64" && cal.Name() == "cryptoBlockAsmX16" {
					con = goWrapperContracts["cryptoBlockAsmX16"]
				}
				if con == nil || (len(cal.Blocks) != 0 && goWrapperContracts[cal.Name()] == nil) {
					continue
				}
				r.Count("asm_call_sites_"+arch, 1)
				if env == nil {
					env = NewLinEnv(p, fn)
					env.lenSum = func(c2 *ssa.Function, call2 *ssa.Call, en *LinEnv) ([]*Lin, bool) {
						return retLenSummary(p, c2, 0, call2, en, 0)
					}
				}
				// substitution: callee scalar symbols -> caller expressions
				subst := map[string]*Lin{}
				okSub := true
				for i, prm0 := range cal.Params {
					prm := namedParam{prm0, asmCanonName(cal.Name(), i, prm0.Name())}
					a := call.Call.Args[i]
					switch prm.Type().Underlying().(type) {
					case *types.Slice:
						ls, ok := env.Len(a)
						if ok && len(ls) == 1 {
							subst[prm.Name()+".len"] = ls[0]
						} else {
							okSub = false
						}
					case *types.Basic:
						subst[prm.Name()] = env.Int(a)
					}
				}
				facts := append(env.FactsAt(b), env.Extra...)
				// assumed range of the configured tag size
				for _, l := range subst {
					for k := range l.T {
						if isTagSizeTerm(p, k) {
							facts = append(facts, Fact{E: L(k).Sub(linConst(12))}, Fact{E: linConst(16).Sub(L(k))})
						}
					}
				}
				inst := func(l *Lin) (*Lin, bool) {
					out := linConst(l.C)
					for k, c := range l.T {
						s, ok := subst[k]
						if !ok {
							return nil, false
						}
						out = out.addScaled(s, c)
					}
					return out, true
				}
				site := fmt.Sprintf("[%s] %s -> %s", arch, p.FuncName(fn), cal.Name())
				// one named exclusion (DESIGN 3/C11): the sliding-window tail of the arm64 Go glue selects its windows by bit tests
				// (blocks&8, &4, &2, &1) whose effect on the remaining length needs a bit-level, path-sensitive domain
				if arch == "arm64" && fn == p.Func("sm4.(*sm4GcmAsm).cryptoBlocks") && strings.HasPrefix(cal.Name(), "xor") && cal.Name() != "xor256" {
					r.Count("callsites_not_decided_"+arch, 1)
					r.Note("NOT DECIDED: %s at %s — window selected by a bit test of the block count; the 1-byte guarantee of &out[0]/&in[0] is not extended to the window size by this analysis", site, p.InstrPos(call))
					continue
				}
				// scalar preconditions
				for _, pre := range con.pre {
					e, ok := inst(pre.E)
					if !ok || !okSub {
						r.Undecided("CALLSITE", site+" precondition "+factStr(pre), p.InstrPos(call), "cannot express the precondition in the caller's terms")
						continue
					}
					facts2 := append(env.FactsAt(b), env.Extra...)
					facts2 = append(facts2, facts...)
					if strings.Contains(factStr(pre), "tagSize") {
						r.Ok("CALLSITE", site+" precondition "+factStr(pre), p.InstrPos(call), "tag size range is an assumption of the claim (validated by crypto/cipher before NewGCM)")
						continue
					}
					r.Check(proveWithCallers(p, fn, e, facts2, 0), "CALLSITE", site+" precondition "+factStr(pre), p.InstrPos(call), "caller must establish "+e.String()+" >= 0 under its dominating guards")
				}
				for i, prm0 := range cal.Params {
					prm := namedParam{prm0, asmCanonName(cal.Name(), i, prm0.Name())}
					if _, isPtr := prm.Type().Underlying().(*types.Pointer); !isPtr {
						continue
					}
					want := con.size[prm.Name()]
					if want == nil {
						r.Undecided("CALLSITE", site+"#"+prm.Name(), p.InstrPos(call), "no contract size for this pointer parameter")
						continue
					}
					need, ok := inst(want)
					if !ok {
						r.Undecided("CALLSITE", site+"#"+prm.Name(), p.InstrPos(call), "cannot express the contract "+want.String()+" in the caller's terms")
						continue
					}
					have, desc := guaranteeOf(env, call.Call.Args[i])
					if have == nil {
						r.Viol("CALLSITE", site+"#"+prm.Name(), p.InstrPos(call), "cannot determine how many bytes the argument guarantees ("+desc+"); the routine touches "+need.String()+" bytes")
						continue
					}
					fs := append([]Fact(nil), facts...)
					// the index expression itself is in range at run time (a failing &x[i] panics before the call): i < len(x)
					if ia, isIA := call.Call.Args[i].(*ssa.IndexAddr); isIA {
						if ls, ok := env.Len(ia.X); ok && len(ls) == 1 {
							fs = append(fs, Fact{E: ls[0].Sub(env.Int(ia.Index)).Add(linConst(-1))})
						}
					}
					okc := proveWithCallers(p, fn, have.Sub(need), fs, 0)
					r.Check(okc, "CALLSITE", site+"#"+prm.Name(), p.InstrPos(call), fmt.Sprintf("argument %s guarantees %s bytes; the routine's contract needs %s", desc, have.String(), need.String()))
				}
			}
		}
	}
}

// guaranteeOf: bytes guaranteed behind a pointer argument: &x[i] -> (len(x)-i)*elemsize, nil -> 0.
func guaranteeOf(env *LinEnv, a ssa.Value) (*Lin, string) {
	sizes := types.SizesFor("gc", "amd64")
	switch x := a.(type) {
	case *ssa.Const:
		if x.IsNil() {
			return linConst(0), "nil"
		}
	case *ssa.IndexAddr:
		ls, ok := env.Len(x.X)
		if !ok || len(ls) != 1 {
			return nil, "&x[i] of a value with unknown length"
		}
		var elem types.Type
		switch t := x.X.Type().Underlying().(type) {
		case *types.Slice:
			elem = t.Elem()
		case *types.Pointer:
			if at, ok := t.Elem().Underlying().(*types.Array); ok {
				elem = at.Elem()
			}
		}
		if elem == nil {
			return nil, "&x[i] of unsupported type"
		}
		es := sizes.Sizeof(elem)
		return ls[0].Sub(env.Int(x.Index)).Scale(es), fmt.Sprintf("&x[%s] with len(x) = %s, element size %d", env.Int(x.Index).String(), ls[0].String(), es)
	case *ssa.Parameter:
		if con := goWrapperContracts[x.Parent().Name()]; con != nil {
			if sz := con.size[x.Name()]; sz != nil {
				return sz, "pointer parameter " + x.Name() + " of the Go wrapper " + x.Parent().Name() + " (its own contract, checked at its call sites)"
			}
		}
		return nil, "pointer parameter " + x.Name() + " forwarded"
	}
	return nil, fmt.Sprintf("%T", a)
}

// c11Reslice: L-RESLICE — x[:k] with constant k on a slice parameter where only cap(x) bounds k.
func c11Reslice(r *Report, p *Prog, arch string) {
	for _, fn := range p.RepoFuncs() {
		if len(fn.Blocks) == 0 || fn.Pkg == nil {
			continue
		}
		if shortPkg(fn.Pkg.Pkg.Path()) == "sm4" && glueCovered(p, arch, fn) {
			continue
		}
		env := NewLinEnv(p, fn)
		for _, b := range fn.Blocks {
			for _, in := range b.Instrs {
				sl, ok := in.(*ssa.Slice)
				if !ok || sl.High == nil {
					continue
				}
				prm, isP := sl.X.(*ssa.Parameter)
				if !isP {
					continue
				}
				if _, isSlice := prm.Type().Underlying().(*types.Slice); !isSlice {
					continue
				}
				hi := env.Int(sl.High)
				if hi == nil {
					continue
				}
				if !hi.IsConst() {
					// x[:l] with l a length argument (the comparison helper's `l`): the same silent extension within the
					// capacity unless a guard or an earlier index has established l <= len(x)
					if _, isPrm := sl.High.(*ssa.Parameter); !isPrm {
						continue
					}
				}
				r.Count("reslices_"+arch, 1)
				facts := env.FactsAt(b)
				need := linTerm("len("+prm.Name()+")", true).Sub(hi)
				// an earlier x[k:] or x[k] on every path to this point has already panicked unless len(x) >= k (resp. > k)
				for _, db := range fn.Blocks {
					if !db.Dominates(b) {
						continue
					}
					for _, din := range db.Instrs {
						if din == in {
							break
						}
						switch d := din.(type) {
						case *ssa.Slice:
							if d.X == ssa.Value(prm) && d.High == nil && d.Low != nil {
								if lo := env.Int(d.Low); lo.IsConst() {
									facts = append(facts, Fact{E: linTerm("len("+prm.Name()+")", true).Sub(lo)})
								}
							}
						case *ssa.IndexAddr:
							if d.X == ssa.Value(prm) {
								if ix := env.Int(d.Index); ix.IsConst() {
									facts = append(facts, Fact{E: linTerm("len("+prm.Name()+")", true).Sub(ix).Sub(linConst(1))})
								}
							}
						}
					}
				}
				// an unexported helper may rely on its callers: use the meet of the call-site facts (parameter precondition)
				okc := ProveNonNeg(need, facts)
				if !okc && os.Getenv("SMGO_RESLICE") != "" {
					var fs []string
					for _, f := range facts {
						fs = append(fs, factStr(f))
					}
					fmt.Println("RESLICE", p.FuncName(fn), need.String(), fs, "block", b.Index, "edgeConds", len(edgeConds(b)), "idom", b.Idom())
					for _, ec := range edgeConds(b) {
						fmt.Printf("   cond %T %v truth=%v facts=%d\n", ec.If.Cond, ec.If.Cond, ec.Truth, len(env.condFacts(ec.If.Cond, ec.Truth)))
						if bo, ok := ec.If.Cond.(*ssa.BinOp); ok {
							fmt.Printf("      X %T %v type %v\n", bo.X, bo.X, bo.X.Type())
						}
					}
				}
				if !okc && !token.IsExported(fn.Name()) && hi.IsConst() {
					okc = calleeParamLenAtLeast(p, fn, prm, hi.C)
				}
				r.Check(okc, "L-RESLICE", fmt.Sprintf("[%s] %s: %s[:%s]", arch, p.FuncName(fn), prm.Name(), hi.String()), p.InstrPos(sl), "a reslice to a fixed width must be dominated by a length guard (otherwise a short slice is silently extended within its capacity)")
			}
		}
	}
}

// calleeParamLenAtLeast: every call site of fn passes for prm a slice whose length is provably >= k.
func calleeParamLenAtLeast(p *Prog, fn *ssa.Function, prm *ssa.Parameter, k int64) bool {
	idx := -1
	for i, q := range fn.Params {
		if q == prm {
			idx = i
		}
	}
	n := 0
	for _, caller := range p.RepoFuncs() {
		var env *LinEnv
		for _, b := range caller.Blocks {
			for _, in := range b.Instrs {
				call, ok := in.(*ssa.Call)
				if !ok || call.Call.StaticCallee() != fn {
					continue
				}
				n++
				if env == nil {
					env = NewLinEnv(p, caller)
					// the argument may be the result of a helper that checks and reslices (leadingBlocks): its length is the
					// helper's returned length in the caller's terms
					env.lenSum = func(c2 *ssa.Function, call2 *ssa.Call, en *LinEnv) ([]*Lin, bool) {
						return retLenSummary(p, c2, 0, call2, en, 0)
					}
				}
				ls, ok := env.Len(call.Call.Args[idx])
				if !ok {
					return false
				}
				for _, l := range ls {
					if !ProveNonNeg(l.Sub(linConst(k)), env.FactsAt(b)) {
						return false
					}
				}
			}
		}
	}
	return n > 0
}

// goWrapperContracts: Go functions that only forward pointers to an assembler routine carry the same contract.
var goWrapperContracts = map[string]*xContract{
	"cryptoBlockAsmX16": {size: map[string]*Lin{"rk": linConst(128), "dst": linConst(256), "src": linConst(256)}},
}

// proveWithCallers proves E >= 0 in fn; if the local guards do not suffice and fn is unexported, the obligation is
// propagated to every call site of fn (parameter preconditions as the meet over all callers), up to depth 3.
func proveWithCallers(p *Prog, fn *ssa.Function, E *Lin, facts []Fact, depth int) bool {
	if ProveNonNeg(E, facts) {
		return true
	}
	if depth >= 3 || token.IsExported(fn.Name()) && fn.Signature.Recv() == nil {
		return false
	}
	if fn.Signature.Recv() != nil && token.IsExported(fn.Name()) {
		return false
	}
	// which terms of E are parameters of fn?
	n := 0
	for _, caller := range p.RepoFuncs() {
		var env *LinEnv
		for _, b := range caller.Blocks {
			for _, in := range b.Instrs {
				call, ok := in.(*ssa.Call)
				if !ok || call.Call.StaticCallee() != fn {
					continue
				}
				n++
				if env == nil {
					env = NewLinEnv(p, caller)
					env.lenSum = func(c2 *ssa.Function, call2 *ssa.Call, en *LinEnv) ([]*Lin, bool) {
						return retLenSummary(p, c2, 0, call2, en, 0)
					}
				}
				// the callee's local facts that only mention parameters also hold... they are path facts inside the callee: keep them as hypotheses
				sub := linConst(E.C)
				var hyp []Fact
				okAll := true
				substTerm := func(k string) (*Lin, bool) {
					for i, prm := range fn.Params {
						if i >= len(call.Call.Args) {
							break
						}
						if k == "len("+prm.Name()+")" {
							ls, ok := env.Len(call.Call.Args[i])
							if ok && len(ls) == 1 {
								return ls[0], true
							}
							return nil, false
						}
						if k == prm.Name() {
							return env.Int(call.Call.Args[i]), true
						}
					}
					return nil, false
				}
				for k, c := range E.T {
					v, ok := substTerm(k)
					if !ok {
						// a callee-internal term (loop counter, quotient of a parameter, ...): keep it, together with the callee facts about it
						v = linTerm(k, E.NonNeg[k])
					}
					sub = sub.addScaled(v, c)
				}
				for _, f := range facts {
					fe := linConst(f.E.C)
					for k, c := range f.E.T {
						v, ok := substTerm(k)
						if !ok {
							v = linTerm(k, f.E.NonNeg[k])
						}
						fe = fe.addScaled(v, c)
					}
					hyp = append(hyp, Fact{E: fe, Eq: f.Eq, Ne: f.Ne})
				}
				if !okAll {
					return false
				}
				for _, alt := range env.FactAlternatives(b, 0) {
					cf := append(append([]Fact{}, alt...), env.Extra...)
					cf = append(cf, hyp...)
					for _, l := range []*Lin{sub} {
						for k := range l.T {
							if isTagSizeTerm(p, k) {
								cf = append(cf, Fact{E: L(k).Sub(linConst(12))}, Fact{E: linConst(16).Sub(L(k))})
							}
						}
					}
					if !proveWithCallers(p, caller, sub, cf, depth+1) {
						return false
					}
				}
			}
		}
	}
	return n > 0
}

// glueRoots: the functions interpreted in the glue domain as entry points
var glueRoots = map[string]bool{
	"sm4.(*sm4GcmAsm).Seal": true, "sm4.(*sm4GcmAsm).Open": true,
	"sm4.(*sm4CipherAsm).Encrypt": true, "sm4.(*sm4CipherAsm).Decrypt": true,
	"sm4.(*sm4Cipher).Encrypt": true, "sm4.(*sm4Cipher).Decrypt": true,
	"sm4.NewCipher": true, "sm4.encryptX2": true, "sm4.decryptX2": true,
}

// glueCovered: fn is decided by the glue interpretation: it is an entry point of a glue run, or a helper that the runs of
// this architecture followed and whose every static caller is covered as well (so no call context escapes the runs).
func glueCovered(p *Prog, arch string, fn *ssa.Function) bool {
	return glueCoveredRec(p, arch, fn, map[*ssa.Function]bool{})
}

func glueCoveredRec(p *Prog, arch string, fn *ssa.Function, busy map[*ssa.Function]bool) bool {
	name := p.FuncName(fn)
	if glueRoots[name] {
		return true
	}
	if !glueFollowedFns[arch][name] || busy[fn] {
		return false
	}
	busy[fn] = true
	defer delete(busy, fn)
	n := 0
	for _, caller := range p.RepoFuncs() {
		for _, b := range caller.Blocks {
			for _, in := range b.Instrs {
				if call, ok := in.(*ssa.Call); ok && call.Call.StaticCallee() == fn {
					n++
					if !glueCoveredRec(p, arch, caller, busy) {
						return false
					}
				}
			}
		}
	}
	return n > 0
}
