package main

import (
	"fmt"
	"go/ast"
	"go/token"
	"go/types"
	"os"
	"sort"
	"strings"

	"golang.org/x/tools/go/packages"
	"golang.org/x/tools/go/ssa"
	"golang.org/x/tools/go/ssa/ssautil"
)

const modPath = "github.com/bilibili/smgo"

// Prog is the type-checked, SSA-lowered repository for one build configuration (engine G1).
type Prog struct {
	Arch    string
	Repo    string
	Fset    *token.FileSet
	Pkgs    map[string]*packages.Package // by path relative to module ("sm2", "sm2/internal", ...)
	SSA     *ssa.Program
	SSAPkgs map[string]*ssa.Package
	funcs   map[string]*ssa.Function
}

var progCache = map[string]*Prog{}

// LoadRepo loads ./... of repo for GOARCH=arch with the given extra build tags.
// Any type error, a package count other than 6, or a loader failure is an error (never a silent pass).
func LoadRepo(repo, arch string, tags ...string) (*Prog, error) {
	return loadDir(repo, arch, 6, tags...)
}

// LoadControls loads the positive-control module of the checker (testdata/controls).
func LoadControls(dir, arch string) (*Prog, error) { return loadDir(dir, arch, 4) }

func loadDir(repo, arch string, wantPkgs int, tags ...string) (*Prog, error) {
	key := repo + "|" + arch + "|" + strings.Join(tags, ",")
	if p, ok := progCache[key]; ok {
		return p, nil
	}
	env := append(os.Environ(), "GOARCH="+arch, "GOOS=linux", "GOFLAGS=-mod=mod", "GOPROXY=off", "GOSUMDB=off", "GOWORK=off", "CGO_ENABLED=0")
	cfg := &packages.Config{
		Mode:  packages.LoadAllSyntax,
		Dir:   repo,
		Env:   env,
		Tests: false,
	}
	if len(tags) > 0 {
		cfg.BuildFlags = []string{"-tags=" + strings.Join(tags, ",")}
	}
	pkgs, err := packages.Load(cfg, "./...")
	if err != nil {
		return nil, fmt.Errorf("packages.Load(%s): %v", arch, err)
	}
	var errs []string
	packages.Visit(pkgs, nil, func(p *packages.Package) {
		for _, e := range p.Errors {
			errs = append(errs, e.Error())
		}
	})
	if len(errs) > 0 {
		return nil, fmt.Errorf("load/type errors for GOARCH=%s: %s", arch, strings.Join(errs, "; "))
	}
	if len(pkgs) != wantPkgs {
		return nil, fmt.Errorf("expected %d packages under %s for GOARCH=%s, got %d", wantPkgs, repo, arch, len(pkgs))
	}
	prog, spkgs := ssautil.AllPackages(pkgs, ssa.InstantiateGenerics)
	prog.Build()
	p := &Prog{Arch: arch, Repo: repo, Fset: pkgs[0].Fset, Pkgs: map[string]*packages.Package{}, SSA: prog, SSAPkgs: map[string]*ssa.Package{}, funcs: map[string]*ssa.Function{}}
	for i, pk := range pkgs {
		rel := strings.TrimPrefix(strings.TrimPrefix(pk.PkgPath, modPath), "/")
		p.Pkgs[rel] = pk
		if spkgs[i] == nil {
			return nil, fmt.Errorf("no SSA package for %s", pk.PkgPath)
		}
		p.SSAPkgs[rel] = spkgs[i]
	}
	for fn := range ssautil.AllFunctions(prog) {
		if fn.Pkg == nil || !strings.HasPrefix(fn.Pkg.Pkg.Path(), modPath) {
			continue
		}
		p.funcs[p.FuncName(fn)] = fn
	}
	progCache[key] = p
	return p, nil
}

// FuncName gives a stable, line-free name: "sm2.VerifyHashed", "sm2/internal.(*SM2Point).Add".
func (p *Prog) FuncName(fn *ssa.Function) string {
	if fn == nil {
		return "<nil>"
	}
	if fn.Pkg == nil {
		if fn.Object() != nil && fn.Object().Pkg() != nil {
			return shortPkg(fn.Object().Pkg().Path()) + "." + recvName(fn)
		}
		return fn.String()
	}
	rel := shortPkg(fn.Pkg.Pkg.Path())
	name := recvName(fn)
	if fn.Parent() != nil {
		return p.FuncName(fn.Parent()) + "$" + fn.Name()
	}
	return rel + "." + name
}

func shortPkg(path string) string {
	if strings.HasPrefix(path, modPath) {
		s := strings.TrimPrefix(strings.TrimPrefix(path, modPath), "/")
		if s == "" {
			return "."
		}
		return s
	}
	return path
}

func recvName(fn *ssa.Function) string {
	if recv := fn.Signature.Recv(); recv != nil {
		t := recv.Type()
		ptr := ""
		if pt, ok := t.(*types.Pointer); ok {
			t = pt.Elem()
			ptr = "*"
		}
		if nt, ok := t.(*types.Named); ok {
			return "(" + ptr + nt.Obj().Name() + ")." + fn.Name()
		}
	}
	return fn.Name()
}

// Func resolves an anchor; an unresolved anchor is an error for the caller to report as fatal.
func (p *Prog) Func(name string) *ssa.Function {
	if f := p.funcs[name]; f != nil {
		return f
	}
	return p.resolveByRole(name)
}

func (p *Prog) MustFunc(r *Report, name string) *ssa.Function {
	f := p.Func(name)
	if f == nil {
		r.Fatalf("unresolved anchor: function %s not found for GOARCH=%s", name, p.Arch)
	}
	return f
}

// RepoFuncs returns all functions of repo packages (with or without bodies), sorted by name.
func (p *Prog) RepoFuncs() []*ssa.Function {
	var names []string
	for n := range p.funcs {
		names = append(names, n)
	}
	sort.Strings(names)
	var out []*ssa.Function
	for _, n := range names {
		out = append(out, p.funcs[n])
	}
	return out
}

// Pos renders a position relative to the repo root.
func (p *Prog) Pos(pos token.Pos) string {
	if !pos.IsValid() {
		return "-"
	}
	ps := p.Fset.Position(pos)
	f := strings.TrimPrefix(ps.Filename, p.Repo+"/")
	return fmt.Sprintf("%s:%d", f, ps.Line)
}

// InstrPos finds the best position for an instruction (falls back to the enclosing function).
func (p *Prog) InstrPos(i ssa.Instruction) string {
	if i.Pos().IsValid() {
		return p.Pos(i.Pos())
	}
	if v, ok := i.(ssa.Value); ok {
		for _, ref := range *v.Referrers() {
			if ref.Pos().IsValid() {
				return p.Pos(ref.Pos())
			}
		}
	}
	return p.Pos(i.Parent().Pos())
}

// FuncDecl returns the syntax of a top-level function/method.
func (p *Prog) FuncDecl(fn *ssa.Function) *ast.FuncDecl {
	if fn == nil {
		return nil
	}
	if d, ok := fn.Syntax().(*ast.FuncDecl); ok {
		return d
	}
	return nil
}

// Global resolves a package-level variable.
func (p *Prog) Global(pkg, name string) *ssa.Global {
	sp := p.SSAPkgs[pkg]
	if sp == nil {
		return nil
	}
	if g, ok := sp.Members[name].(*ssa.Global); ok {
		return g
	}
	return nil
}
