package main

// The same phase-1 simplex as lpInfeasible (same pivoting rule, hence the same answer) on rationals with 64-bit numerator
// and denominator. Every operation checks for overflow; on the first overflow the run is abandoned and the caller falls
// back to the arbitrary-precision version. Nothing is approximated.

import (
	"math"
	"math/big"
	"math/bits"
)

type r64 struct{ n, d int64 } // d > 0, gcd(|n|, d) == 1

type lp64Overflow struct{}

func absU64(x int64) uint64 {
	if x < 0 {
		return uint64(-x) // also right for MinInt64
	}
	return uint64(x)
}

func mul64(a, b int64) int64 {
	if a == 0 || b == 0 {
		return 0
	}
	hi, lo := bits.Mul64(absU64(a), absU64(b))
	if hi != 0 || lo > math.MaxInt64 {
		panic(lp64Overflow{})
	}
	if (a < 0) != (b < 0) {
		return -int64(lo)
	}
	return int64(lo)
}

func add64(a, b int64) int64 {
	c := a + b
	if (a > 0 && b > 0 && c <= 0) || (a < 0 && b < 0 && c >= 0) {
		panic(lp64Overflow{})
	}
	return c
}

func gcdU(a, b uint64) uint64 {
	for b != 0 {
		a, b = b, a%b
	}
	return a
}

func mk64(n, d int64) r64 {
	if d < 0 {
		if n == math.MinInt64 || d == math.MinInt64 {
			panic(lp64Overflow{})
		}
		n, d = -n, -d
	}
	if n == 0 {
		return r64{0, 1}
	}
	if n == math.MinInt64 {
		panic(lp64Overflow{})
	}
	g := int64(gcdU(absU64(n), uint64(d)))
	return r64{n / g, d / g}
}

func (a r64) mul(b r64) r64 {
	if a.n == 0 || b.n == 0 {
		return r64{0, 1}
	}
	g1 := int64(gcdU(absU64(a.n), uint64(b.d)))
	g2 := int64(gcdU(absU64(b.n), uint64(a.d)))
	return r64{mul64(a.n/g1, b.n/g2), mul64(a.d/g2, b.d/g1)}
}

func (a r64) sub(b r64) r64 {
	if b.n == 0 {
		return a
	}
	g := int64(gcdU(uint64(a.d), uint64(b.d)))
	n := add64(mul64(a.n, b.d/g), -mul64(b.n, a.d/g))
	d := mul64(a.d/g, b.d)
	return mk64(n, d)
}

func (a r64) quo(b r64) r64 {
	if b.n == 0 {
		panic("division by zero")
	}
	inv := r64{b.d, b.n}
	if inv.d < 0 {
		if inv.d == math.MinInt64 {
			panic(lp64Overflow{})
		}
		inv.n, inv.d = -inv.n, -inv.d
	}
	return a.mul(inv)
}

func (a r64) cmp(b r64) int {
	l, r := mul64(a.n, b.d), mul64(b.n, a.d)
	switch {
	case l < r:
		return -1
	case l > r:
		return 1
	}
	return 0
}

func (a r64) sign() int {
	switch {
	case a.n < 0:
		return -1
	case a.n > 0:
		return 1
	}
	return 0
}

// lpInfeasible64: ok is false when an overflow ended the run (the result is then meaningless)
func lpInfeasible64(rows []lpRow, nvars int) (infeasible, ok bool) {
	defer func() {
		if x := recover(); x != nil {
			if _, isOv := x.(lp64Overflow); isOv {
				infeasible, ok = false, false
				return
			}
			panic(x)
		}
	}()
	conv := func(x *big.Rat) r64 {
		if x == nil {
			return r64{0, 1}
		}
		if !x.Num().IsInt64() || !x.Denom().IsInt64() {
			panic(lp64Overflow{})
		}
		return mk64(x.Num().Int64(), x.Denom().Int64())
	}
	m := len(rows)
	if m == 0 {
		return false, true
	}
	total := nvars + m
	zero := r64{0, 1}
	T := make([][]r64, m+1)
	for i := range T {
		T[i] = make([]r64, total+1)
		for j := range T[i] {
			T[i][j] = zero
		}
	}
	basis := make([]int, m)
	for i, r := range rows {
		neg := r.b.Sign() < 0
		for j := 0; j < nvars; j++ {
			if r.a[j] != nil {
				v := conv(r.a[j])
				if neg {
					v.n = -v.n
				}
				T[i][j] = v
			}
		}
		v := conv(r.b)
		if neg {
			v.n = -v.n
		}
		T[i][total] = v
		T[i][nvars+i] = r64{1, 1}
		basis[i] = nvars + i
	}
	for j := 0; j <= total; j++ {
		if j >= nvars && j < total {
			continue
		}
		s := zero
		for i := 0; i < m; i++ {
			s = s.sub(r64{-T[i][j].n, T[i][j].d})
		}
		T[m][j] = r64{-s.n, s.d}
	}
	for iter := 0; iter < 5000; iter++ {
		col := -1
		for j := 0; j < total; j++ {
			if T[m][j].n < 0 {
				col = j
				break
			}
		}
		if col < 0 {
			break
		}
		row := -1
		var best r64
		for i := 0; i < m; i++ {
			if T[i][col].n <= 0 {
				continue
			}
			ratio := T[i][total].quo(T[i][col])
			if row < 0 {
				row, best = i, ratio
				continue
			}
			if c := ratio.cmp(best); c < 0 || (c == 0 && basis[i] < basis[row]) {
				row, best = i, ratio
			}
		}
		if row < 0 {
			break
		}
		p := T[row][col]
		for j := 0; j <= total; j++ {
			if T[row][j].n != 0 {
				T[row][j] = T[row][j].quo(p)
			}
		}
		for i := 0; i <= m; i++ {
			if i == row || T[i][col].n == 0 {
				continue
			}
			f := T[i][col]
			Ti, Tr := T[i], T[row]
			for j := 0; j <= total; j++ {
				if Tr[j].n != 0 {
					Ti[j] = Ti[j].sub(f.mul(Tr[j]))
				}
			}
		}
		basis[row] = col
	}
	return T[m][total].n < 0, true
}
