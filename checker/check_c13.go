package main

import (
	"fmt"
	"go/types"
	"strings"

	"golang.org/x/tools/go/ssa"
)

func init() { register("C13", "other", checkC13) }

// hashWrites returns, in control-flow order along the dominator chain to the block of `sum`, the arguments of the
// Write calls made on hash value h before the Sum call.
func hashWrites(fn *ssa.Function, h ssa.Value, sum ssa.Instruction) ([]ssa.Value, []string) {
	var problems []string
	// blocks on the idom chain of sum's block, entry first
	var chain []*ssa.BasicBlock
	for b := sum.Block(); b != nil; b = b.Idom() {
		chain = append([]*ssa.BasicBlock{b}, chain...)
	}
	onChain := map[*ssa.BasicBlock]bool{}
	for _, b := range chain {
		onChain[b] = true
	}
	var args []ssa.Value
	for _, ref := range *h.Referrers() {
		in, ok := ref.(ssa.Instruction)
		if !ok {
			continue
		}
		if ci, ok := in.(ssa.CallInstruction); ok && ci.Common().IsInvoke() && ci.Common().Value == h {
			if !onChain[in.Block()] {
				problems = append(problems, "hash method called on a conditional path: "+in.String())
			}
		}
	}
	done := false
	for _, b := range chain {
		for _, in := range b.Instrs {
			if in == sum {
				done = true
				break
			}
			ci, ok := in.(ssa.CallInstruction)
			if !ok || !ci.Common().IsInvoke() || ci.Common().Value != h {
				continue
			}
			switch ci.Common().Method.Name() {
			case "Write":
				args = append(args, ci.Common().Args[0])
			default:
				problems = append(problems, "unexpected hash method before Sum: "+ci.Common().Method.Name())
			}
		}
		if done {
			break
		}
	}
	// loops through the chain blocks would repeat writes
	for _, b := range chain {
		if reachableBlocks2(b.Succs)[b] {
			for _, in := range b.Instrs {
				if ci, ok := in.(ssa.CallInstruction); ok && ci.Common().IsInvoke() && ci.Common().Value == h {
					problems = append(problems, "hash method inside a loop")
				}
			}
		}
	}
	return args, problems
}

func reachableBlocks2(starts []*ssa.BasicBlock) map[*ssa.BasicBlock]bool {
	seen := map[*ssa.BasicBlock]bool{}
	for _, s := range starts {
		for b := range reachableBlocks(s) {
			seen[b] = true
		}
	}
	return seen
}

// describeArg names a Write argument: parameter name, global name, "call:<fn>" result, or local array.
func describeArg(p *Prog, fn *ssa.Function, v ssa.Value) string {
	switch x := v.(type) {
	case *ssa.Parameter:
		return "param:" + x.Name()
	case *ssa.UnOp:
		if g, ok := x.X.(*ssa.Global); ok {
			return "global:" + shortPkg(g.Pkg.Pkg.Path()) + "." + g.Name()
		}
	case *ssa.Slice:
		if al, ok := x.X.(*ssa.Alloc); ok && x.Low == nil && x.High == nil {
			return "local:" + al.Comment
		}
		return "slice-of:" + describeArg(p, fn, x.X)
	case *ssa.Call:
		if cal := x.Call.StaticCallee(); cal != nil {
			return "call:" + cal.Name()
		}
		if x.Call.IsInvoke() {
			return "invoke:" + x.Call.Method.Name()
		}
	case *ssa.Extract:
		return describeArg(p, fn, x.Tuple) + fmt.Sprintf("#%d", x.Index)
	}
	return fmt.Sprintf("%T", v)
}

// findHashSum finds "h := sm3.New(); ...; h.Sum(nil)" in fn.
func findHashSum(fn *ssa.Function) (h ssa.Value, sum *ssa.Call) {
	for _, b := range fn.Blocks {
		for _, in := range b.Instrs {
			call, ok := in.(*ssa.Call)
			if !ok {
				continue
			}
			if cal := call.Call.StaticCallee(); cal != nil && cal.Name() == "New" && cal.Pkg != nil && shortPkg(cal.Pkg.Pkg.Path()) == "sm3" {
				h = call
			}
			if call.Call.IsInvoke() && call.Call.Method.Name() == "Sum" && call.Call.Value == h && h != nil {
				sum = call
			}
		}
	}
	return
}

func checkC13(c *Ctx, r *Report) {
	r.Explanation = "Decided on the outcomes of a path-by-path interpretation in the protocol domain (checker/proto*.go; the SM3 object is the concatenation of the byte strings written to it): ZA-HASH-INPUT (ZA = SM3(ENTL || ID || a || b || Gx || Gy || xA || yA) with ENTL the 2-byte big-endian 8*len(id), not truncated), ZA-REFUSAL (an error exactly when the bit length does not fit 16 bits), and the wrappers: Sign / SignZa satisfy the signing rules of C02 and Verify / VerifyZa the verification rules of C03 with e = SM3(ZA || M) resp. SM3(za || M) (the functions are followed through their callees, so it does not matter whether they call the digest-level function or a shared helper); PARAMETER-BLOCK: the constant block equals a || b || Gx || Gy of the resolved curve literal. NOT decided: SM3 values (C04)."
	r.Trusted = []string{"go/ssa", "encoding/binary.BigEndian.PutUint16", "contracts summarised in checker/proto2.go"}
	p, err := LoadRepo(c.Repo, "amd64")
	if err != nil {
		r.Fatalf("%v", err)
		return
	}
	protoZA(r, p)
	protoWrappers(r, p)
	c13ParameterBlock(r, p)
	r.Floor("protocol_paths", 20)
}

// c13ParameterBlock: internal.GetZBytes() yields a || b || Gx || Gy of the curve literal
func c13ParameterBlock(r *Report, p *Prog) {
	f := NewFolder(p)
	zb, err := f.GlobalByName("sm2", "zBytes")
	if err != nil || zb.k != fBytes {
		// not a literal: interpret internal.GetZBytes with the curve literal's parameters as symbols; the block must be
		// be32(P-3) || be32(B) || be32(Gx) || be32(Gy)
		fn := p.Func("sm2/internal.GetZBytes")
		if fn == nil {
			r.Undecided("PARAMETER-BLOCK", "sm2.zBytes", "sm2/sm2.go", fmt.Sprintf("initialiser does not fold to a byte string: %v", err))
			return
		}
		if P, e1 := f.CurveInt("P"); e1 == nil {
			for _, nm := range []string{"B", "Gx", "Gy"} {
				if v, e2 := f.CurveInt(nm); e2 != nil || v.Sign() < 0 || v.Cmp(P) >= 0 {
					r.Viol("PARAMETER-BLOCK", "curve literal "+nm, "sm2/internal/sm2_curve.go", "the parameter is not a field element of the literal's p")
				}
			}
		} else {
			r.Fatalf("unresolved anchor: curve parameters")
			return
		}
		e, outs := protoRunMode(p, fn, false)
		want := pOp("cat", pBe(pAdd(pSym("P"), pC(-3)), 32), pBe(pSym("B"), 32), pBe(pSym("Gx"), 32), pBe(pSym("Gy"), 32))
		ok := len(e.errs) == 0 && len(e.precond) == 0 && len(outs) == 1 && len(outs[0].vals) == 1
		got := "?"
		if ok {
			if t, isB := e.proto.bytesOf(outs[0].st, outs[0].vals[0]); isB {
				got = e.proto.normInt(outs[0].st, t).String()
				ok = got == want.String()
			} else {
				ok = false
			}
		}
		r.Check(ok, "PARAMETER-BLOCK", "sm2.zBytes", p.Pos(fn.Pos()), "internal.GetZBytes returns be32(p-3) || be32(b) || be32(Gx) || be32(Gy) of the curve literal (interpreted with the literal's parameters as symbols; p-3 fits 32 bytes)"+ifs(!ok, ": got "+trunc(got, 200)+"; "+strings.Join(append(e.errs, e.precond...), "; ")))
		return
	}
	var want []byte
	ok := true
	P, e1 := f.CurveInt("P")
	B, e2 := f.CurveInt("B")
	Gx, e3 := f.CurveInt("Gx")
	Gy, e4 := f.CurveInt("Gy")
	if e1 != nil || e2 != nil || e3 != nil || e4 != nil {
		r.Fatalf("unresolved anchor: curve parameters")
		return
	}
	a := new(bigInt).Sub(P, new(bigInt).SetInt64(3))
	for _, v := range []*bigInt{a, B, Gx, Gy} {
		buf := make([]byte, 32)
		v.FillBytes(buf)
		want = append(want, buf...)
	}
	if len(zb.bytes) != len(want) {
		ok = false
	} else {
		for i := range want {
			if want[i] != zb.bytes[i] {
				ok = false
			}
		}
	}
	r.Check(ok, "PARAMETER-BLOCK", "sm2.zBytes", "sm2/sm2.go", fmt.Sprintf("the %d-byte constant block is a || b || Gx || Gy (a = p-3) of the curve literal", len(zb.bytes)))
}

// c13Entl: the first Write argument is a 2-byte local array filled by BigEndian.PutUint16(arr[:], uint16(8*len(id))).
func c13Entl(p *Prog, fn *ssa.Function, arg ssa.Value) (bool, string) {
	sl, ok := arg.(*ssa.Slice)
	if !ok {
		return false, "ENTL is not a slice of a local array"
	}
	al, ok := sl.X.(*ssa.Alloc)
	if !ok {
		return false, "ENTL is not a local array"
	}
	arr, ok := al.Type().Underlying().(*types.Pointer).Elem().Underlying().(*types.Array)
	if !ok || arr.Len() != 2 {
		return false, "ENTL buffer is not 2 bytes wide"
	}
	env := NewLinEnv(p, fn)
	var idp *ssa.Parameter
	for _, prm := range fn.Params {
		if prm.Name() == "id" {
			idp = prm
		}
	}
	if idp == nil {
		idp = fn.Params[0]
	}
	// all writers of the array: exactly one PutUint16 through BigEndian
	n := 0
	good := false
	detail := ""
	for _, b := range fn.Blocks {
		for _, in := range b.Instrs {
			call, ok := in.(*ssa.Call)
			if !ok {
				if st, ok := in.(*ssa.Store); ok {
					if ia, ok := st.Addr.(*ssa.IndexAddr); ok && ia.X == ssa.Value(al) {
						n += 10
						detail = "ENTL bytes stored by hand"
					}
				}
				continue
			}
			cal := call.Call.StaticCallee()
			if cal == nil || len(call.Call.Args) < 3 {
				continue
			}
			dst, ok := call.Call.Args[1].(*ssa.Slice)
			if !ok || dst.X != ssa.Value(al) {
				continue
			}
			n++
			if cal.String() != "(encoding/binary.bigEndian).PutUint16" {
				detail = "ENTL written by " + cal.String() + " (must be big-endian 16 bit)"
				continue
			}
			v := call.Call.Args[2]
			cv, ok := v.(*ssa.Convert)
			if !ok {
				detail = "ENTL value is not a conversion of the bit length"
				continue
			}
			l := env.Int(cv.X)
			want := linTerm("len("+idp.Name()+")", true).Scale(8)
			if l.Equal(want) {
				good = true
				detail = "PutUint16(big-endian, uint16(" + l.String() + "))"
			} else {
				detail = "ENTL value is " + l.String() + ", expected 8*len(id)"
			}
		}
	}
	return good && n == 1, detail
}

// c13Narrowing: every narrowing integer conversion of a value that depends on a length must be provably in range.
func c13Narrowing(r *Report, p *Prog) {
	for _, fn := range p.RepoFuncs() {
		if len(fn.Blocks) == 0 {
			continue
		}
		var env *LinEnv
		for _, b := range fn.Blocks {
			for _, in := range b.Instrs {
				cv, ok := in.(*ssa.Convert)
				if !ok {
					continue
				}
				fb, ok1 := cv.X.Type().Underlying().(*types.Basic)
				tb, ok2 := cv.Type().Underlying().(*types.Basic)
				if !ok1 || !ok2 || fb.Info()&types.IsInteger == 0 || tb.Info()&types.IsInteger == 0 {
					continue
				}
				if intBits(tb) >= intBits(fb) {
					continue
				}
				if env == nil {
					env = NewLinEnv(p, fn)
				}
				l := env.Int(cv.X)
				lenDerived := false
				for k := range l.T {
					if strings.HasPrefix(k, "len(") {
						lenDerived = true
					}
				}
				if !lenDerived {
					continue
				}
				r.Count("narrowing_conversions", 1)
				max := int64(1)<<uint(intBits(tb)) - 1
				if tb.Info()&types.IsUnsigned == 0 {
					max = int64(1)<<uint(intBits(tb)-1) - 1
				}
				facts := env.FactsAt(b)
				hi := linConst(max).Sub(l)
				key := fmt.Sprintf("%s: %s(%s)", p.FuncName(fn), tb.Name(), l.String())
				okHi := ProveNonNeg(hi, facts)
				okLo := ProveNonNeg(l, facts)
				var fs []string
				for _, f := range facts {
					fs = append(fs, f.Raw)
				}
				r.Check(okHi && okLo, "NARROWING", key, p.InstrPos(cv), fmt.Sprintf("value must lie in [0,%d] under the dominating guards {%s}%s", max, strings.Join(fs, "; "), ifs(!okHi, ": the guards do not exclude a value above the range (wraps to a different number)")))
			}
		}
	}
}

// c13Wrapper: fn hashes exactly hashArgs with a fresh SM3 and calls `callee` with wantArgs ("digest" = the Sum result), returning its results.
func c13Wrapper(r *Report, p *Prog, name, callee string, wantArgs, hashArgs []string) {
	fn := p.MustFunc(r, name)
	if fn == nil {
		return
	}
	h, sum := findHashSum(fn)
	if h == nil || sum == nil {
		r.Viol("WRAPPER", name, p.Pos(fn.Pos()), "does not hash with a fresh sm3.New() ... Sum(nil)")
		return
	}
	args, probs := hashWrites(fn, h, sum)
	var names []string
	for _, a := range args {
		names = append(names, describeArg(p, fn, a))
	}
	r.Check(strings.Join(names, ",") == strings.Join(hashArgs, ",") && len(probs) == 0 && isNilConst(sum.Call.Args[0]), "HASH-INPUT-SEQUENCE", name, p.InstrPos(sum), fmt.Sprintf("e = SM3(%v), expected SM3(%v)", names, hashArgs))
	found := false
	for _, b := range fn.Blocks {
		for _, in := range b.Instrs {
			call, ok := in.(*ssa.Call)
			if !ok {
				continue
			}
			cal := call.Call.StaticCallee()
			if cal == nil || cal.Name() != callee {
				continue
			}
			found = true
			var got []string
			for _, a := range call.Call.Args {
				if a == ssa.Value(sum) {
					got = append(got, "digest")
				} else {
					got = append(got, describeArg(p, fn, a))
				}
			}
			r.Check(strings.Join(got, ",") == strings.Join(wantArgs, ","), "WRAPPER", name+" -> "+callee, p.InstrPos(call), fmt.Sprintf("arguments %v, expected %v", got, wantArgs))
			r.Check(resultsReturnedUnchanged(call), "WRAPPER", name+" returns "+callee+"'s results", p.InstrPos(call), "the digest-level results are returned unchanged")
		}
	}
	if !found {
		r.Viol("WRAPPER", name+" -> "+callee, p.Pos(fn.Pos()), "digest-level entry point is not called")
	}
}

func resultsReturnedUnchanged(call *ssa.Call) bool {
	n := call.Call.Signature().Results().Len()
	for _, ref := range *call.Referrers() {
		switch x := ref.(type) {
		case *ssa.Return:
		case *ssa.Extract:
			for _, r2 := range *x.Referrers() {
				ret, ok := r2.(*ssa.Return)
				if !ok || x.Index >= len(retVals(ret)) || retVals(ret)[x.Index] != ssa.Value(x) || len(retVals(ret)) != n {
					return false
				}
			}
		case *ssa.DebugRef:
		default:
			return false
		}
	}
	return true
}

// c13IdLevel: fn = ZA(id,pubx,puby); on error return it (nil/false results); else callee(..., za, ...).
func c13IdLevel(r *Report, p *Prog, name, callee string, wantArgs []string) {
	fn := p.MustFunc(r, name)
	if fn == nil {
		return
	}
	var za *ssa.Call
	for _, b := range fn.Blocks {
		for _, in := range b.Instrs {
			if call, ok := in.(*ssa.Call); ok {
				if cal := call.Call.StaticCallee(); cal != nil && cal.Name() == "ZA" && shortPkg(cal.Pkg.Pkg.Path()) == "sm2" {
					za = call
				}
			}
		}
	}
	if za == nil {
		r.Viol("WRAPPER", name+" -> ZA", p.Pos(fn.Pos()), "ZA is not called")
		return
	}
	var got []string
	for _, a := range za.Call.Args {
		got = append(got, describeArg(p, fn, a))
	}
	r.Check(strings.Join(got, ",") == "param:id,param:pubx,param:puby", "WRAPPER", name+" -> ZA", p.InstrPos(za), fmt.Sprintf("ZA arguments %v", got))
	g := findErrGuard(za)
	if g == nil {
		r.Viol("ERROR-DISCIPLINE", name+": ZA error", p.InstrPos(za), "the error result of ZA is not tested (`err != nil` on the value ZA returned)")
	} else {
		problems := []string{}
		for b := range reachableBlocks(g.FailSucc) {
			for _, in := range b.Instrs {
				if c2, ok := in.(*ssa.Call); ok && c2.Call.StaticCallee() != nil && isRepoFunc(c2.Call.StaticCallee()) {
					problems = append(problems, "error arm continues into "+c2.Call.StaticCallee().Name())
				}
				if ret, ok := in.(*ssa.Return); ok {
					if !provablyNonNilError(retVals(ret)[len(retVals(ret))-1], g.Err) {
						problems = append(problems, "error arm does not return ZA's error")
					}
				}
			}
		}
		r.Check(len(problems) == 0, "ERROR-DISCIPLINE", name+": ZA error", p.InstrPos(g.If), "ZA's error is returned before any further call"+ifs(len(problems) > 0, ": "+strings.Join(problems, "; ")))
	}
	zaVal := ssa.Value(nil)
	for _, ref := range *za.Referrers() {
		if ex, ok := ref.(*ssa.Extract); ok && ex.Index == 0 {
			zaVal = ex
		}
	}
	found := false
	for _, b := range fn.Blocks {
		for _, in := range b.Instrs {
			call, ok := in.(*ssa.Call)
			if !ok {
				continue
			}
			cal := call.Call.StaticCallee()
			if cal == nil || cal.Name() != callee {
				continue
			}
			found = true
			var gotA []string
			for _, a := range call.Call.Args {
				if a == zaVal && zaVal != nil {
					gotA = append(gotA, "za")
				} else {
					gotA = append(gotA, describeArg(p, fn, a))
				}
			}
			r.Check(strings.Join(gotA, ",") == strings.Join(wantArgs, ","), "WRAPPER", name+" -> "+callee, p.InstrPos(call), fmt.Sprintf("arguments %v, expected %v", gotA, wantArgs))
			if g != nil {
				r.Check(g.OkSucc.Dominates(call.Block()), "ERROR-DISCIPLINE", name+": "+callee+" only after ZA succeeded", p.InstrPos(call), "the call is dominated by the `err == nil` edge of ZA's error test")
			}
			r.Check(resultsReturnedUnchanged(call), "WRAPPER", name+" returns "+callee+"'s results", p.InstrPos(call), "results are returned unchanged")
		}
	}
	if !found {
		r.Viol("WRAPPER", name+" -> "+callee, p.Pos(fn.Pos()), "ZA-level entry point is not called")
	}
}
