package main

import (
	"fmt"
	"go/token"
	"go/types"
	"math/big"
	"sort"
	"strings"

	"golang.org/x/tools/go/ssa"
)

// ---------- byte buffers ----------

// lenOf: the length of a byte-string term, from its shape or from an equality fact of the path
func (d *protoDom) lenOf(st *sState, t *pt) int {
	if n := pLen(t); n >= 0 {
		return n
	}
	key := pOp("len", t).String()
	for _, f := range st.pfacts {
		if f.a != nil && f.op == token.EQL {
			if f.a.String() == key && f.b.op == "c" && f.b.n.IsInt64() {
				return int(f.b.n.Int64())
			}
			if f.b.String() == key && f.a.op == "c" && f.a.n.IsInt64() {
				return int(f.a.n.Int64())
			}
		}
	}
	if c, ok := d.pinTerm(st, pOp("len", t)); ok {
		return int(c)
	}
	return -1
}

// pinTerm: the value of an integer term when the facts of the path pin it: two-sided bounds (len - 32 <= 0 and
// len - 32 >= 0, or j-1 < len <= j from a counting loop). Candidates are the constants that occur in the facts that share
// a symbol with the term.
func (d *protoDom) pinTerm(st *sState, t *pt) (int64, bool) {
	var keys []string
	var syms func(t *pt)
	syms = func(t *pt) {
		switch t.op {
		case "add", "neg", "mul":
			for _, a := range t.args {
				syms(a)
			}
		case "c":
		default:
			keys = append(keys, t.String())
		}
	}
	syms(t)
	if len(keys) == 0 {
		return 0, false
	}
	cands := map[int64]bool{}
	mentions := false
	for _, f := range st.pfacts {
		if f.a == nil {
			continue
		}
		fa, fb := f.a.String(), f.b.String()
		hit := false
		for _, key := range keys {
			if strings.Contains(fa, key) || strings.Contains(fb, key) {
				hit = true
			}
		}
		if !hit {
			continue
		}
		mentions = true
		var walk func(t *pt)
		walk = func(t *pt) {
			if t.op == "c" && t.n.IsInt64() {
				v := t.n.Int64()
				if v < 0 {
					v = -v
				}
				for _, c := range []int64{v - 1, v, v + 1} {
					if c >= 0 && c <= 4096 {
						cands[c] = true
					}
				}
			}
			for _, a := range t.args {
				walk(a)
			}
		}
		walk(f.a)
		walk(f.b)
	}
	if !mentions {
		return 0, false
	}
	// the term's own constants shift the candidates
	var offs []int64
	var walkT func(t *pt)
	walkT = func(t *pt) {
		if t.op == "c" && t.n.IsInt64() {
			offs = append(offs, t.n.Int64())
		}
		for _, a := range t.args {
			walkT(a)
		}
	}
	if t.op == "add" {
		walkT(t)
		var sum int64
		for _, o := range offs {
			sum += o
		}
		offs = append(offs, sum)
	}
	all := map[int64]bool{}
	for c := range cands {
		all[c] = true
		for _, o := range offs {
			if c+o >= 0 {
				all[c+o] = true
			}
		}
	}
	sorted := make([]int64, 0, len(all))
	for c := range all {
		sorted = append(sorted, c)
	}
	sort.Slice(sorted, func(i, j int) bool { return sorted[i] < sorted[j] })
	for _, c := range sorted {
		if proveP(st.pfacts, t, token.EQL, pC(c)) {
			return c, true
		}
	}
	return 0, false
}

// cellsTerm: the byte string held by cells
// rippleAdd: the cells are the result of adding a constant to a big-endian string byte by byte with a running carry:
// from the last cell backwards, cell = lsb(V_k), V_k = byte(X, n-1-k) + C_k, C_0 a constant, C_k = V_(k-1) >> 8.
// Returns be(trunc(val(X) + C_0, 8n), n).
func rippleAdd(cells []sVal) (*pt, bool) {
	n := len(cells)
	if n < 2 {
		return nil, false
	}
	var X *pt
	var c0 *pt
	var prevV *pt
	for k := 0; k < n; k++ {
		bc, ok := cells[n-1-k].(byteCell)
		if !ok || bc.idx != 0 || bc.src.op != "lsb" {
			return nil, false
		}
		V := bc.src.args[0]
		if V.op != "add" || len(V.args) != 2 {
			return nil, false
		}
		var bt, ct *pt
		for i := 0; i < 2; i++ {
			if V.args[i].op == "byte" {
				bt, ct = V.args[i], V.args[1-i]
			}
		}
		if bt == nil || bt.k != n-1-k {
			return nil, false
		}
		if X == nil {
			X = bt.args[0]
		} else if bt.args[0].String() != X.String() {
			return nil, false
		}
		if k == 0 {
			if ct.op != "c" || !ct.n.IsInt64() || ct.n.Int64() < 0 || ct.n.Int64() > 255 {
				return nil, false
			}
			c0 = ct
		} else {
			if ct.op != "shr" || ct.n == nil || ct.n.Int64() != 8 || ct.args[0].String() != prevV.String() {
				return nil, false
			}
		}
		prevV = V
	}
	if pLen(X) != n {
		return nil, false
	}
	return pBe(&pt{op: "trunc", args: []*pt{pAdd(pVal(X), c0)}, k: 8 * n}, n), true
}

func cellsTerm(cells []sVal) (*pt, bool) {
	if t, ok := rippleAdd(cells); ok {
		return t, true
	}
	if osGetenv("SMGO_DEBUG_CELLS") != "" && len(cells) > 2 {
		for i := len(cells) - 3; i < len(cells); i++ {
			if bc, ok := cells[i].(byteCell); ok {
				fmt.Printf("cell[%d] = byteCell{%s, %d}\n", i, bc.src, bc.idx)
			} else {
				fmt.Printf("cell[%d] = %T %v\n", i, cells[i], cells[i])
			}
		}
	}
	var parts []*pt
	i := 0
	for i < len(cells) {
		switch c := cells[i].(type) {
		case sInt:
			var lit []byte
			for i < len(cells) {
				ci, ok := cells[i].(sInt)
				if !ok || !ci.v.IsInt64() {
					break
				}
				lit = append(lit, byte(ci.v.Int64()))
				i++
			}
			parts = append(parts, pLit(lit))
		case byteCell:
			if c.src.op == "lsb" {
				// byte(v>>8(n-1)), ..., byte(v): the n low bytes of v, most significant first
				j := i
				for j+1 < len(cells) {
					n, ok := cells[j+1].(byteCell)
					if !ok || n.src.op != "lsb" || n.src.String() != c.src.String() || n.idx != c.idx-(j+1-i) {
						break
					}
					j++
				}
				run := j - i + 1
				if last := cells[j].(byteCell); last.idx != 0 || c.idx != run-1 {
					return nil, false
				}
				parts = append(parts, pBe(&pt{op: "trunc", args: []*pt{c.src.args[0]}, k: 8 * run}, run))
				i = j + 1
				continue
			}
			j := i
			for j+1 < len(cells) {
				n, ok := cells[j+1].(byteCell)
				if !ok || n.src != c.src || n.idx != c.idx+(j+1-i) {
					break
				}
				j++
			}
			run := j - i + 1
			if c.idx == 0 && pLen(c.src) == run {
				parts = append(parts, c.src)
			} else if c.idx == 0 && c.src.op == "param" {
				// a parameter whose length the path has pinned to the run length is the whole string
				parts = append(parts, &pt{op: "sub", args: []*pt{c.src}, k: 0, n: big.NewInt(int64(run))})
			} else {
				parts = append(parts, pSub(c.src, c.idx, c.idx+run))
			}
			i = j + 1
		default:
			return nil, false
		}
	}
	if len(parts) == 1 {
		return parts[0], true
	}
	return pOp("cat", parts...), true
}

// normSub: sub(x,0,n) is x when the path knows len(x) == n
func (d *protoDom) normBytes(st *sState, t *pt) *pt {
	if t == nil {
		return t
	}
	if t.op == "sub" && t.k == 0 && d.lenOf(st, t.args[0]) == int(t.n.Int64()) {
		return t.args[0]
	}
	if t.op == "cat" {
		var as []*pt
		for _, a := range t.args {
			as = append(as, d.normBytes(st, a))
		}
		return pOp("cat", as...)
	}
	return t
}

// bytesOf: the byte-string term of a slice / array value
func (d *protoDom) bytesOf(st *sState, v sVal) (*pt, bool) {
	switch x := v.(type) {
	case pBytes:
		return x.t, true
	case sNil:
		return pLit(nil), true
	case sSlice:
		arr, ok := st.heap[x.id].(*hArray)
		if !ok || x.lo < 0 || x.hi > len(arr.elems) || x.lo > x.hi {
			return nil, false
		}
		t, ok := cellsTerm(arr.elems[x.lo:x.hi])
		if !ok {
			return nil, false
		}
		return d.normInt(st, d.normBytes(st, t)), true
	case sPtr:
		if arr, ok := st.heap[x.id].(*hArray); ok && x.idx == -1 {
			t, ok := cellsTerm(arr.elems)
			if !ok {
				return nil, false
			}
			return d.normInt(st, d.normBytes(st, t)), true
		}
	}
	return nil, false
}

// writeBytes stores a byte-string term of known length into cells
func (d *protoDom) writeBytes(st *sState, arr *hArray, at int, t *pt, n int) bool {
	if at < 0 || at+n > len(arr.elems) {
		return false
	}
	// flatten concatenations and literals
	var put func(t *pt, at int) (int, bool)
	put = func(t *pt, at int) (int, bool) {
		switch t.op {
		case "cat":
			for _, a := range t.args {
				k, ok := put(a, at)
				if !ok {
					return 0, false
				}
				at += k
			}
			return 0, true
		case "lit":
			for i := 0; i < t.k; i++ {
				var b byte
				fmt.Sscanf(t.s[2*i:2*i+2], "%02x", &b)
				arr.elems[at+i] = sInt{big.NewInt(int64(b))}
			}
			return t.k, true
		case "sub":
			for i := t.k; i < int(t.n.Int64()); i++ {
				arr.elems[at+i-t.k] = byteCell{src: t.args[0], idx: i}
			}
			return int(t.n.Int64()) - t.k, true
		}
		l := d.lenOf(st, t)
		if l < 0 {
			return 0, false
		}
		for i := 0; i < l; i++ {
			arr.elems[at+i] = byteCell{src: t, idx: i}
		}
		return l, true
	}
	if t.op == "cat" {
		_, ok := put(t, at)
		return ok
	}
	k, ok := put(t, at)
	return ok && k == n
}

// ---------- objects ----------

func (d *protoDom) newObj(st *sState, kind string, t *pt) pObj {
	id := d.e.newID()
	st.heap[id] = &hProto{kind: kind, t: t}
	return pObj{id}
}

func (d *protoDom) obj(st *sState, v sVal) *hProto {
	if o, ok := v.(pObj); ok {
		if h, ok := st.heap[o.id].(*hProto); ok {
			return h
		}
	}
	return nil
}

// setObj replaces the object's content (objects are shared by pointer, contents are immutable records)
func (d *protoDom) setObj(st *sState, v sVal, h *hProto) {
	if o, ok := v.(pObj); ok {
		st.heap[o.id] = h
	}
}

func namedOf(t types.Type) (pkg, name string) {
	if p, ok := t.Underlying().(*types.Pointer); ok {
		t = p.Elem()
	}
	if n, ok := t.(*types.Named); ok && n.Obj().Pkg() != nil {
		return n.Obj().Pkg().Path(), n.Obj().Name()
	}
	return "", ""
}

// allocKind: local values of these types are protocol objects
func allocKind(t types.Type) string {
	pkg, name := namedOf(t)
	switch {
	case pkg == "math/big" && name == "Int":
		return "big"
	case strings.HasSuffix(pkg, "/sm3") && name == "SM3":
		return "hash"
	case strings.HasSuffix(pkg, "/sm2/internal/fiat") && name == "SM2ScalarElement":
		return "scalar"
	case strings.HasSuffix(pkg, "/sm2/internal/fiat") && name == "SM2Element":
		return "elem"
	case strings.HasSuffix(pkg, "/sm2/internal") && name == "SM2Point":
		return "point"
	}
	return ""
}

// ---------- calls ----------

func (d *protoDom) intArg(v sVal) (*pt, bool) { return isProtoInt(v) }

func (d *protoDom) bigOf(st *sState, v sVal) (*pt, bool) {
	if h := d.obj(st, v); h != nil && h.kind == "big" {
		return h.t, true
	}
	return nil, false
}

// call handles a call in protocol mode. Returns handled and, for fallible operations, additional states.
func (d *protoDom) call(st *sState, call *ssa.Call, name string, args []sVal) (bool, []*sState) {
	e := d.e
	pos := e.p.InstrPos(call)
	set := func(v sVal) { st.vals[call] = v }
	fail := func(format string, a ...interface{}) (bool, []*sState) {
		e.fail(format+" at "+pos, a...)
		set(sOpaque{"failed"})
		return true, nil
	}
	bytesArg := func(i int) (*pt, bool) {
		if i >= len(args) {
			return nil, false
		}
		return d.bytesOf(st, args[i])
	}
	if strings.HasSuffix(name, ".init") {
		set(sNil{}) // initialisers of imported packages
		return true, nil
	}
	switch name {
	case "sm2/internal.getCurve":
		// the curve value: its parameter block holds the literal's P, N, B, Gx, Gy (field order of elliptic.CurveParams)
		id := e.newID()
		obj := &hArray{elems: make([]sVal, 7)}
		for i, sym := range []string{"P", "N", "B", "Gx", "Gy"} {
			obj.elems[i] = d.newObj(st, "big", pSym(sym))
		}
		obj.elems[5] = sInt{big.NewInt(256)}
		obj.elems[6] = sOpaque{"curve name"}
		st.heap[id] = obj
		set(sStruct{[]sVal{sPtr{id, -1}}})
		return true, nil
	// ----- math/big
	case "math/big.NewInt":
		t, ok := d.intArg(args[0])
		if !ok {
			return fail("big.NewInt of a non-integer")
		}
		set(d.newObj(st, "big", t))
		return true, nil
	case "(*math/big.Int).SetBytes":
		b, ok := bytesArg(1)
		if !ok {
			return fail("big.Int.SetBytes of an unknown byte string")
		}
		d.setObj(st, args[0], &hProto{kind: "big", t: pVal(b), set: true})
		set(args[0])
		return true, nil
	case "(*math/big.Int).Set":
		t, ok := d.bigOf(st, args[1])
		if !ok {
			return fail("big.Int.Set of an unknown value")
		}
		d.setObj(st, args[0], &hProto{kind: "big", t: t, set: true})
		set(args[0])
		return true, nil
	case "(*math/big.Int).Add", "(*math/big.Int).Sub", "(*math/big.Int).Mul", "(*math/big.Int).Mod":
		x, ok1 := d.bigOf(st, args[1])
		y, ok2 := d.bigOf(st, args[2])
		if !ok1 || !ok2 {
			return fail("%s of an unknown value", name)
		}
		var t *pt
		switch {
		case strings.HasSuffix(name, "Add"):
			t = pAdd(x, y)
		case strings.HasSuffix(name, "Sub"):
			t = pAdd(x, pNeg(y))
		case strings.HasSuffix(name, "Mul"):
			t = pMul(x, y)
		default:
			if y.op != "N" {
				return fail("big.Int.Mod by something other than the group order")
			}
			t = pOp("mod", x)
		}
		d.setObj(st, args[0], &hProto{kind: "big", t: t, set: true})
		set(args[0])
		return true, nil
	case "(*math/big.Int).Cmp":
		x, ok1 := d.bigOf(st, args[0])
		y, ok2 := d.bigOf(st, args[1])
		if !ok1 || !ok2 {
			return fail("big.Int.Cmp of an unknown value")
		}
		set(pInt{pOp("cmp", x, y)})
		return true, nil
	case "(*math/big.Int).Sign":
		x, ok := d.bigOf(st, args[0])
		if !ok {
			return fail("big.Int.Sign of an unknown value")
		}
		set(pInt{pOp("cmp", x, pC(0))})
		return true, nil
	case "(*math/big.Int).Bytes":
		x, ok := d.bigOf(st, args[0])
		if !ok {
			return fail("big.Int.Bytes of an unknown value")
		}
		set(pBytes{pOp("minbe", x)})
		return true, nil
	case "(*math/big.Int).FillBytes":
		x, ok := d.bigOf(st, args[0])
		if !ok {
			return fail("big.Int.FillBytes of an unknown value")
		}
		switch b := args[1].(type) {
		case sSlice:
			arr, ok := st.heap[b.id].(*hArray)
			if !ok {
				return fail("big.Int.FillBytes into an unknown buffer")
			}
			n := b.hi - b.lo
			d.need(st, x, token.LSS, widthBound(n), "big.Int.FillBytes("+fmt.Sprint(n)+" bytes) needs the value to fit", pos)
			d.writeBytes(st, arr, b.lo, pBe(x, n), n)
			set(b)
			return true, nil
		}
		return fail("big.Int.FillBytes into an unknown buffer")
	// ----- crypto/subtle, utils
	case "crypto/subtle.ConstantTimeCompare":
		x, ok1 := bytesArg(0)
		y, ok2 := bytesArg(1)
		if !ok1 || !ok2 {
			return fail("ConstantTimeCompare of an unknown byte string")
		}
		set(pInt{pOp("eqb", x, y)})
		return true, nil
	case "bytes.Equal":
		// the boolean spelling of the same comparison (a variable-time one: C08 objects when an operand is secret)
		x, ok1 := bytesArg(0)
		y, ok2 := bytesArg(1)
		if !ok1 || !ok2 {
			return fail("bytes.Equal of an unknown byte string")
		}
		if c, ok := eqb2(pOp("eqb", x, y), token.EQL, pC(1)); ok {
			set(c)
		} else {
			set(pCond{a: pOp("eqb", x, y), b: pC(1), op: token.EQL})
		}
		return true, nil
	case "math/bits.Sub32", "math/bits.Sub64", "math/bits.Sub":
		// a borrow chain over the bytes of two strings, least significant byte first, computes "X < Y": the borrow out of
		// the first k bytes is a term; when the chain has covered every byte the path forks on the comparison
		x, ok1 := d.intArg(args[0])
		y, ok2 := d.intArg(args[1])
		bw, ok3 := d.intArg(args[2])
		if ok1 && ok2 && ok3 {
			x, y = d.normInt(st, x), d.normInt(st, y)
			// an operand is byte i of a string, or the big-endian word formed by bytes [lo, hi) of it
			part := func(t *pt) (*pt, int, int, bool) {
				if t.op == "byte" && len(t.args) == 1 {
					return t.args[0], t.k, t.k + 1, true
				}
				if t.op == "val" && len(t.args) == 1 && t.args[0].op == "sub" && t.args[0].n != nil {
					sb := t.args[0]
					return sb.args[0], sb.k, int(sb.n.Int64()), true
				}
				return nil, 0, 0, false
			}
			X, xlo, xhi, okx := part(x)
			Y, ylo, yhi, oky := part(y)
			if okx && oky && xlo == ylo && xhi == yhi && xhi > xlo {
				n := d.lenOf(st, X)
				k := -1
				switch {
				case bw.op == "c" && bw.n.Sign() == 0:
					k = 0
				case bw.op == "brw" && bw.args[0].String() == X.String() && bw.args[1].String() == Y.String():
					k = bw.k
				}
				if n > 0 && n == d.lenOf(st, Y) && k >= 0 && xhi == n-k {
					k1 := k + (xhi - xlo) // bytes covered after this step
					if k1 < n {
						set([]sVal{sOpaque{"difference word"}, pInt{&pt{op: "brw", args: []*pt{X, Y}, k: k1}}})
						return true, nil
					}
					ge := st.clone()
					ge.vals[call] = []sVal{sOpaque{"difference byte"}, sInt{big.NewInt(0)}}
					ge.addFact(pFact{a: pVal(X), op: token.GEQ, b: pVal(Y)})
					st.addFact(pFact{a: pVal(X), op: token.LSS, b: pVal(Y)})
					set([]sVal{sOpaque{"difference byte"}, sInt{big.NewInt(1)}})
					var extra []*sState
					if !d.infeasible(ge) {
						extra = append(extra, ge)
					}
					if d.infeasible(st) {
						st.dead = true
					}
					return true, extra
				}
			}
		}
		return fail("%s outside a borrow chain over the bytes of two strings (operands %v, %v, borrow %v)", name, x, y, bw)
	case "crypto/subtle.ConstantTimeByteEq", "crypto/subtle.ConstantTimeEq":
		// 1 if the arguments are equal, else 0: the path forks on the comparison
		byteOrInt := func(v sVal) (*pt, bool) {
			if bc, ok := v.(byteCell); ok {
				if bc.src.op == "lsb" && bc.idx == 0 {
					return &pt{op: "trunc", args: []*pt{bc.src.args[0]}, k: 8}, true
				}
				return byteTerm(bc.src, bc.idx), true
			}
			return d.intArg(v)
		}
		x, ok1 := byteOrInt(args[0])
		y, ok2 := byteOrInt(args[1])
		if !ok1 || !ok2 {
			return fail("%s of a value the domain does not model", name)
		}
		x, y = d.normInt(st, x), d.normInt(st, y)
		// the OR of all bytes of a string is zero exactly when its value is zero
		if X := orOfAllBytes(d, st, x); X != nil && y.op == "c" && y.n.Sign() == 0 {
			x, y = pVal(X), pC(0)
		} else if X := orOfAllBytes(d, st, y); X != nil && x.op == "c" && x.n.Sign() == 0 {
			x, y = pVal(X), pC(0)
		} else if t := wholeNonzeroWord(x); t != nil && y.op == "c" && y.n.Sign() == 0 {
			// the OR of all limbs of an element (folded or not) is zero exactly when the element is
			x, y = t, pC(0)
		} else if t := wholeNonzeroWord(y); t != nil && x.op == "c" && x.n.Sign() == 0 {
			x, y = t, pC(0)
		}
		if v, known := d.decideCmp(st, x, token.EQL, y); known {
			set(sInt{big.NewInt(map[bool]int64{true: 1, false: 0}[v])})
			return true, nil
		}
		ne := st.clone()
		ne.vals[call] = sInt{big.NewInt(0)}
		ne.addFact(pFact{a: x, op: token.NEQ, b: y})
		st.addFact(pFact{a: x, op: token.EQL, b: y})
		set(sInt{big.NewInt(1)})
		var extra []*sState
		if !d.infeasible(ne) {
			extra = append(extra, ne)
		}
		if d.infeasible(st) {
			st.dead = true
		}
		return true, extra
	case "sm2.TestPrivateKey":
		// called from another entry point: by its contract (decided on its own body by KEYTEST-ACCEPT / KEYTEST-REJECT):
		// 0 exactly for keys of at most 32 bytes with 1 <= d <= n-2
		b, ok := bytesArg(0)
		if !ok {
			return fail("TestPrivateKey of an unknown byte string")
		}
		dv, ln := pVal(b), pOp("len", b)
		d.tpkCalls++
		code := pInt{&pt{op: "param", s: fmt.Sprintf("keycode#%d", d.tpkCalls)}}
		var extra []*sState
		mk := func(facts ...pFact) {
			c := st.clone()
			c.vals[call] = code
			c.addFact(pFact{a: code.t, op: token.NEQ, b: pC(0)})
			for _, f := range facts {
				c.addFact(f)
			}
			if !d.infeasible(c) {
				extra = append(extra, c)
			}
		}
		known := d.lenOf(st, b)
		if known < 0 || known >= 33 {
			mk(pFact{a: ln, op: token.GEQ, b: pC(33)})
		}
		if known >= 33 {
			st.dead = true
			set(code)
			return true, extra
		}
		if known >= 0 {
			ln = pC(int64(known))
		}
		mk(pFact{a: ln, op: token.LEQ, b: pC(32)}, pFact{a: dv, op: token.LEQ, b: pC(0)})
		mk(pFact{a: ln, op: token.LEQ, b: pC(32)}, pFact{a: dv, op: token.GEQ, b: pAdd(pSym("N"), pC(-1))})
		st.addFact(pFact{a: ln, op: token.LEQ, b: pC(32)})
		st.addFact(pFact{a: dv, op: token.GEQ, b: pC(1)})
		st.addFact(pFact{a: dv, op: token.LEQ, b: pAdd(pSym("N"), pC(-2))})
		set(sInt{big.NewInt(0)})
		if d.infeasible(st) {
			st.dead = true
		}
		return true, extra
	case "utils.ConstantTimeCmp":
		x, ok1 := bytesArg(0)
		y, ok2 := bytesArg(1)
		l, ok3 := constOf(args[2])
		if !ok1 || !ok2 || !ok3 {
			return fail("ConstantTimeCmp with an unknown argument")
		}
		n := int(l.Int64())
		lx, ly := d.lenOf(st, x), d.lenOf(st, y)
		if lx != n || ly != n {
			// the comparison covers the first l bytes: both operands must be exactly l bytes long here
			d.needLen(st, x, n, "utils.ConstantTimeCmp compares the first "+fmt.Sprint(n)+" bytes", pos)
			d.needLen(st, y, n, "utils.ConstantTimeCmp compares the first "+fmt.Sprint(n)+" bytes", pos)
		}
		set(pInt{pOp("ctcmp", pVal(x), pVal(y))})
		return true, nil
	// ----- io
	case "io.ReadFull", "io.ReadAtLeast":
		b, ok := args[1].(sSlice)
		if !ok {
			return fail("io.ReadFull into something that is not a local buffer or slice")
		}
		arr, ok := st.heap[b.id].(*hArray)
		if !ok {
			return fail("io.ReadFull into an unknown buffer")
		}
		n := b.hi - b.lo
		if name == "io.ReadAtLeast" {
			m, ok := constOf(args[2])
			if !ok || int(m.Int64()) != n {
				return fail("io.ReadAtLeast with a minimum other than the buffer length")
			}
		}
		if _, isReader := args[0].(pReader); !isReader {
			return fail("io.ReadFull from something other than the caller's random source")
		}
		// a second draw at the same site: the previous candidate was rejected and the loop starts over
		protoObjs := func() map[int]string {
			m := map[int]string{}
			for id, h := range st.heap {
				if hp, ok := h.(*hProto); ok && hp.kind != "hash" && hp.set {
					t := "?"
					if hp.t != nil {
						t = hp.t.String()
					}
					m[id] = hp.kind + ":" + t
				}
			}
			return m
		}
		for _, site := range st.drawSites {
			if site == ssa.Instruction(call) {
				// the loop starts over: what was computed before the loop must be what it was in the first round
				if snap := st.drawSnap[call]; snap != nil {
					now := protoObjs()
					for id, was := range snap {
						if cur, ok := now[id]; ok && cur != was {
							st.iterDirty = append(st.iterDirty, fmt.Sprintf("%s became %s", was, cur))
						}
					}
					sort.Strings(st.iterDirty)
				}
				st.dead = true
				e.restarts = append(e.restarts, st)
				return true, nil
			}
		}
		st.drawSites = append(st.drawSites, call)
		{
			ns := map[ssa.Instruction]map[int]string{}
			for k, v := range st.drawSnap {
				ns[k] = v
			}
			ns[call] = protoObjs()
			st.drawSnap = ns
		}
		// failure: buffer contents are unspecified
		bad := st.clone()
		badArr := bad.heap[b.id].(*hArray)
		for i := b.lo; i < b.hi; i++ {
			badArr.elems[i] = sOpaque{"bytes of a failed read"}
		}
		bad.vals[call] = []sVal{sOpaque{"count of a failed read"}, pErr{true}}
		bad.readErrs++
		// success
		st.draws++
		dr := &pt{op: "draw", s: fmt.Sprintf("draw#%d", st.draws), k: n}
		d.writeBytes(st, arr, b.lo, dr, n)
		st.drawLens = append(st.drawLens, n)
		set([]sVal{sInt{big.NewInt(int64(n))}, pErr{false}})
		return true, []*sState{bad}
	// ----- errors
	case "errors.New", "fmt.Errorf":
		set(pErr{true})
		return true, nil
	case "(*errors.errorString).Error", "(error).Error":
		set(sOpaque{"error text"})
		return true, nil
	// ----- sm3
	case "sm3.New":
		set(d.newObj(st, "hash", nil))
		return true, nil
	case "sm3.(*SM3).Reset", "(hash.Hash).Reset":
		d.setObj(st, args[0], &hProto{kind: "hash"})
		set(sNil{})
		return true, nil
	case "sm3.(*SM3).Write", "(hash.Hash).Write", "(io.Writer).Write":
		h := d.obj(st, args[0])
		b, ok := bytesArg(1)
		if h == nil || h.kind != "hash" || !ok {
			return fail("hash Write with an unknown receiver or byte string")
		}
		d.setObj(st, args[0], &hProto{kind: "hash", parts: append(append([]*pt(nil), h.parts...), b)})
		set([]sVal{pInt{pOp("len", b)}, pErr{false}})
		return true, nil
	case "sm3.(*SM3).Sum", "(hash.Hash).Sum":
		h := d.obj(st, args[0])
		pre, ok := bytesArg(1)
		if h == nil || h.kind != "hash" || !ok {
			return fail("hash Sum with an unknown receiver or prefix")
		}
		dg := pOp("sm3", flatCat(h.parts))
		if sl, isSl := args[1].(sSlice); isSl && sl.hi == sl.lo {
			// Sum(buf[:0]) with room for the digest appends in place: the digest lands in the array behind buf
			if arr, ok := st.heap[sl.id].(*hArray); ok && len(arr.elems)-sl.lo >= 32 {
				d.writeBytes(st, arr, sl.lo, dg, 32)
				set(sSlice{sl.id, sl.lo, sl.lo + 32})
				return true, nil
			}
		}
		if pre.op == "lit" && pre.k == 0 {
			set(pBytes{dg})
		} else {
			set(pBytes{pOp("cat", pre, dg)})
		}
		return true, nil
	case "sm3.SumSM3":
		b, ok := bytesArg(0)
		if !ok {
			return fail("SumSM3 of an unknown byte string")
		}
		// returns [32]byte: a fresh array object
		id := e.newID()
		arr := &hArray{elems: make([]sVal, 32)}
		st.heap[id] = arr
		d.writeBytes(st, arr, 0, pOp("sm3", flatCat([]*pt{b})), 32)
		set(sPtr{id, -1})
		return true, nil
	// ----- sm2/internal
	case "sm2/internal.GetN":
		set(d.newObj(st, "big", pSym("N")))
		return true, nil
	case "sm2/internal.GetZBytes":
		set(pBytes{pParam("zBytes")})
		return true, nil
	case "sm2/internal.NewSM2Point":
		if d.structPoints {
			return false, nil // decoder mode: the constructor is followed
		}
		set(d.newObj(st, "point", nil))
		return true, nil
	case "sm2/internal/fiat.(*SM2Element).GetRaw", "sm2/internal/fiat.(*SM2ScalarElement).GetRaw":
		// the limbs of the element: the element itself, for whoever builds something from them
		if h := d.obj(st, args[0]); h == nil || h.t == nil {
			return fail("raw limbs of an unknown element")
		}
		set(args[0])
		return true, nil
	case "sm2/internal.NewFromXY":
		// the affine point (x, y) with Z = 1, from the limbs of two field elements
		x, y := d.obj(st, args[0]), d.obj(st, args[1])
		if x == nil || y == nil || x.t == nil || y.t == nil || x.kind != "elem" || y.kind != "elem" {
			return fail("NewFromXY of limbs that are not those of two known field elements")
		}
		set(d.newObj(st, "point", pOp("xy", x.t, y.t)))
		return true, nil
	case "sm2/internal.(*SM2Point).SetBytes":
		b, ok := bytesArg(1)
		if !ok {
			return fail("point decoding of an unknown byte string")
		}
		bad := st.clone()
		bad.vals[call] = []sVal{sNil{}, pErr{true}}
		bad.addFact(pFact{raw: "decodes(" + b.String() + ")", val: false})
		st.addFact(pFact{raw: "decodes(" + b.String() + ")", val: true})
		d.setObj(st, args[0], &hProto{kind: "point", t: pOp("decode", b), set: true})
		set([]sVal{args[0], pErr{false}})
		return true, []*sState{bad}
	case "sm2/internal.ScalarBaseMult":
		k, ok := bytesArg(0)
		if !ok {
			return fail("ScalarBaseMult of an unknown byte string")
		}
		if d.lenOf(st, k) == 32 {
			set([]sVal{d.newObj(st, "point", pOp("base", pVal(k))), pErr{false}})
			return true, nil
		}
		// wrong length: the routine returns an error
		bad := st.clone()
		bad.vals[call] = []sVal{sNil{}, pErr{true}}
		bad.addFact(pFact{a: pOp("len", k), op: token.NEQ, b: pC(32)})
		st.addFact(pFact{a: pOp("len", k), op: token.EQL, b: pC(32)})
		set([]sVal{d.newObj(st, "point", pOp("base", pVal(k))), pErr{false}})
		return true, []*sState{bad}
	case "sm2/internal.ScalarMixedMult_Unsafe":
		g, ok1 := bytesArg(0)
		P := d.obj(st, args[1])
		t, ok3 := bytesArg(2)
		if !ok1 || P == nil || P.kind != "point" || P.t == nil || !ok3 {
			return fail("ScalarMixedMult_Unsafe with an unknown argument")
		}
		d.needLen(st, g, 32, "ScalarMixedMult_Unsafe reads exactly 32 bytes of the base-point scalar", pos)
		d.needLen(st, t, 32, "ScalarMixedMult_Unsafe recodes exactly 32 bytes of the point scalar", pos)
		set([]sVal{d.newObj(st, "point", pOp("mixed", pVal(g), P.t, pVal(t))), pErr{false}})
		return true, nil
	case "sm2/internal.(*SM2Point).IsInfinity":
		P := d.obj(st, args[0])
		if P == nil || P.t == nil {
			return fail("IsInfinity of an unknown point")
		}
		set(pCond{raw: "isInf(" + P.t.String() + ")"})
		return true, nil
	case "sm2/internal.(*SM2Point).GetAffineX_Unsafe", "sm2/internal.(*SM2Point).GetAffineX":
		P := d.obj(st, args[0])
		if P == nil || P.t == nil {
			return fail("affine x of an unknown point")
		}
		d.needFinite(st, P.t, "the affine x coordinate is taken", pos)
		set(d.newObj(st, "big", pOp("affx", P.t)))
		return true, nil
	case "sm2/internal.(*SM2Point).Bytes_Unsafe", "sm2/internal.(*SM2Point).Bytes":
		P := d.obj(st, args[0])
		if P == nil || P.t == nil {
			return fail("encoding of an unknown point")
		}
		d.needFinite(st, P.t, "the 65-byte encoding is sliced", pos)
		set(pBytes{pOp("cat", pLit([]byte{4}), pBe(pOp("affx", P.t), 32), pBe(pOp("affy", P.t), 32))})
		return true, nil
	case "sm2/internal.Sm2CheckOnCurve":
		x, y := d.obj(st, args[0]), d.obj(st, args[1])
		if x == nil || y == nil || x.t == nil || y.t == nil {
			return fail("curve check of unknown elements")
		}
		pred := "onCurve(" + x.t.String() + "," + y.t.String() + ")"
		bad := st.clone()
		bad.vals[call] = pErr{true}
		bad.addFact(pFact{raw: pred, val: false})
		st.addFact(pFact{raw: pred, val: true})
		set(pErr{false})
		return true, []*sState{bad}
	// ----- fiat elements
	case "sm2/internal/fiat.(*SM2ScalarElement).SetBytes", "sm2/internal/fiat.(*SM2Element).SetBytes":
		b, ok := bytesArg(1)
		if !ok {
			return fail("element decoding of an unknown byte string")
		}
		kind, bound := "scalar", pSym("N")
		if strings.Contains(name, "SM2Element") {
			kind, bound = "elem", pSym("P")
		}
		// accepted exactly when the string has 32 bytes and its value is below the modulus (decided under C03/C16)
		if d.lenOf(st, b) == 32 && proveP(st.pfacts, pVal(b), token.LSS, bound) {
			d.setObj(st, args[0], &hProto{kind: kind, t: pVal(b), set: true})
			set([]sVal{args[0], pErr{false}})
			return true, nil
		}
		bad := st.clone()
		bad.vals[call] = []sVal{sNil{}, pErr{true}}
		bad.addFact(pFact{raw: "canonical" + kind + "(" + b.String() + ")", val: false})
		st.addFact(pFact{raw: "canonical" + kind + "(" + b.String() + ")", val: true})
		st.addFact(pFact{a: pVal(b), op: token.LSS, b: bound})
		if d.lenOf(st, b) != 32 {
			st.addFact(pFact{a: pOp("len", b), op: token.EQL, b: pC(32)})
		}
		d.setObj(st, args[0], &hProto{kind: kind, t: pVal(b), set: true})
		set([]sVal{args[0], pErr{false}})
		return true, []*sState{bad}
	case "sm2/internal/fiat.(*SM2Element).One", "sm2/internal/fiat.(*SM2ScalarElement).One":
		kind := "elem"
		if strings.Contains(name, "Scalar") {
			kind = "scalar"
		}
		d.setObj(st, args[0], &hProto{kind: kind, t: pC(1), set: true})
		set(args[0])
		return true, nil
	case "sm2/internal/fiat.(*SM2Element).Set", "sm2/internal/fiat.(*SM2ScalarElement).Set":
		x := d.obj(st, args[1])
		if x == nil || x.t == nil {
			return fail("Set from an unknown element")
		}
		d.setObj(st, args[0], &hProto{kind: x.kind, t: x.t, set: true})
		set(args[0])
		return true, nil
	case "sm2/internal/fiat.(*SM2Element).Add", "sm2/internal/fiat.(*SM2Element).Sub", "sm2/internal/fiat.(*SM2Element).Mul",
		"sm2/internal/fiat.(*SM2ScalarElement).Add", "sm2/internal/fiat.(*SM2ScalarElement).Sub", "sm2/internal/fiat.(*SM2ScalarElement).Mul":
		x, y := d.obj(st, args[1]), d.obj(st, args[2])
		if x == nil || y == nil || x.t == nil || y.t == nil {
			return fail("%s of an unknown element", name)
		}
		kind, mod := "elem", "modP"
		if strings.Contains(name, "Scalar") {
			kind, mod = "scalar", "mod"
		}
		var t *pt
		switch {
		case strings.HasSuffix(name, ".Add"):
			t = pAdd(stripMod(x.t, mod), stripMod(y.t, mod))
		case strings.HasSuffix(name, ".Sub"):
			t = pAdd(stripMod(x.t, mod), pNeg(stripMod(y.t, mod)))
		default:
			t = pMul(stripMod(x.t, mod), stripMod(y.t, mod))
		}
		d.setObj(st, args[0], &hProto{kind: kind, t: reduceConst(pOp(mod, t), mod), set: true})
		set(args[0])
		return true, nil
	case "sm2/internal/fiat.(*SM2Element).Opp", "sm2/internal/fiat.(*SM2ScalarElement).Opp":
		x := d.obj(st, args[1])
		if x == nil || x.t == nil {
			return fail("Opp of an unknown element")
		}
		kind, mod := "elem", "modP"
		if strings.Contains(name, "Scalar") {
			kind, mod = "scalar", "mod"
		}
		d.setObj(st, args[0], &hProto{kind: kind, t: reduceConst(pOp(mod, pNeg(stripMod(x.t, mod))), mod), set: true})
		set(args[0])
		return true, nil
	case "sm2/internal/fiat.(*SM2Element).Square", "sm2/internal/fiat.(*SM2ScalarElement).Square":
		x := d.obj(st, args[1])
		if x == nil || x.t == nil {
			return fail("Square of an unknown element")
		}
		kind, mod := "elem", "modP"
		if strings.Contains(name, "Scalar") {
			kind, mod = "scalar", "mod"
		}
		d.setObj(st, args[0], &hProto{kind: kind, t: pOp(mod, pMul(stripMod(x.t, mod), stripMod(x.t, mod))), set: true})
		set(args[0])
		return true, nil
	case "sm2/internal/fiat.(*SM2Element).Equal", "sm2/internal/fiat.(*SM2ScalarElement).Equal":
		x, y := d.obj(st, args[0]), d.obj(st, args[1])
		if x == nil || y == nil || x.t == nil || y.t == nil {
			return fail("Equal of an unknown element")
		}
		set(pInt{pOp("eqb", pBe(x.t, 32), pBe(y.t, 32))})
		return true, nil
	case "sm2/internal/fiat.(*SM2Element).IsZero", "sm2/internal/fiat.(*SM2ScalarElement).IsZero":
		x := d.obj(st, args[0])
		if x == nil || x.t == nil {
			return fail("IsZero of an unknown element")
		}
		set(pInt{pOp("eqb", pBe(x.t, 32), pBe(pC(0), 32))})
		return true, nil
	case "sm2/internal/fiat.(*SM2ScalarElement).Invert":
		x := d.obj(st, args[1])
		if x == nil || x.t == nil {
			return fail("inversion of an unknown scalar")
		}
		d.setObj(st, args[0], &hProto{kind: "scalar", t: pOp("inv", stripMod(x.t, "mod")), set: true}) // the inverse of a residue is the inverse of any of its representatives
		set(args[0])
		return true, nil
	case "sm2/internal/fiat.(*SM2ScalarElement).ToBigInt", "sm2/internal/fiat.(*SM2Element).ToBigInt":
		x := d.obj(st, args[0])
		if x == nil || x.t == nil {
			return fail("ToBigInt of an unknown element")
		}
		set(d.newObj(st, "big", x.t))
		return true, nil
	case "sm2/internal/fiat.(*SM2ScalarElement).Bytes", "sm2/internal/fiat.(*SM2Element).Bytes":
		x := d.obj(st, args[0])
		if x == nil || x.t == nil {
			return fail("Bytes of an unknown element")
		}
		set(pBytes{pBe(x.t, 32)})
		return true, nil
	case "sm2/internal/fiat.sm2FromBytes", "sm2/internal/fiat.sm2ScalarFromBytes":
		out, ok1 := args[0].(sPtr)
		in, ok2 := args[1].(sPtr)
		if !ok1 || !ok2 {
			return fail("FromBytes with unknown buffers")
		}
		arr, ok := st.heap[in.id].(*hArray)
		if !ok {
			return fail("FromBytes from an unknown buffer")
		}
		// the input is little-endian: it must be the reversed big-endian string of one value
		var src *pt
		n := len(arr.elems)
		for i, c := range arr.elems {
			bc, ok := c.(byteCell)
			if !ok || bc.idx != n-1-i || (src != nil && bc.src != src && bc.src.String() != src.String()) {
				return fail("FromBytes from a buffer that is not the byte-reversed copy of one %d-byte string", n)
			}
			src = bc.src
		}
		if d.lenOf(st, src) != n {
			return fail("FromBytes from a buffer that is not the byte-reversed copy of one %d-byte string", n)
		}
		if st.limbTerm == nil {
			st.limbTerm = map[int]*pt{}
		}
		st.limbTerm[out.id] = pVal(src)
		set(sNil{})
		return true, nil
	case "sm2/internal/fiat.sm2ToMontgomery", "sm2/internal/fiat.sm2ScalarToMontgomery":
		in, ok := args[1].(sPtr)
		if ok && (st.limbTerm == nil || st.limbTerm[in.id] == nil) {
			// four words read from one 32-byte string, least significant limb first
			if arr, isArr := st.heap[in.id].(*hArray); isArr && len(arr.elems) == 4 {
				var X *pt
				good := true
				for j := 0; j < 4 && good; j++ {
					pi, isInt := arr.elems[j].(pInt)
					if !isInt || pi.t.op != "val" || len(pi.t.args) != 1 {
						good = false
						break
					}
					sb := pi.t.args[0]
					if sb.op != "sub" || sb.n == nil || sb.k != 24-8*j || int(sb.n.Int64()) != 32-8*j || (X != nil && sb.args[0].String() != X.String()) {
						good = false
						break
					}
					X = sb.args[0]
				}
				if good && X != nil && d.lenOf(st, X) == 32 {
					if st.limbTerm == nil {
						st.limbTerm = map[int]*pt{}
					}
					st.limbTerm[in.id] = pVal(X)
				}
			}
		}
		if !ok || st.limbTerm == nil || st.limbTerm[in.id] == nil {
			return fail("ToMontgomery of limbs with no known value")
		}
		t := st.limbTerm[in.id]
		switch out := args[0].(type) {
		case pObj:
			h := d.obj(st, out)
			if h == nil {
				return fail("ToMontgomery into an unknown element")
			}
			d.setObj(st, out, &hProto{kind: h.kind, t: t, set: true})
		case sPtr:
			st.limbTerm[out.id] = t
		default:
			return fail("ToMontgomery into an unknown destination")
		}
		set(sNil{})
		return true, nil
	case "(encoding/binary.bigEndian).Uint64", "(encoding/binary.bigEndian).Uint32", "(encoding/binary.bigEndian).Uint16":
		// a big-endian word of a byte string: the value of that part of the string
		k := map[string]int{"(encoding/binary.bigEndian).Uint64": 8, "(encoding/binary.bigEndian).Uint32": 4, "(encoding/binary.bigEndian).Uint16": 2}[name]
		b, ok := bytesArg(len(args) - 1)
		if !ok {
			return fail("%s of an unknown byte string", name)
		}
		if l := d.lenOf(st, b); l < k {
			if l >= 0 || !proveP(st.pfacts, pOp("len", b), token.GEQ, pC(int64(k))) {
				return fail("%s of a string not known to have %d bytes", name, k)
			}
		}
		if d.lenOf(st, b) == k {
			set(pInt{pVal(b)})
		} else {
			set(pInt{pVal(pSub(b, 0, k))})
		}
		return true, nil
	case "(encoding/binary.bigEndian).PutUint64", "(encoding/binary.bigEndian).PutUint32":
		k := map[string]int{"(encoding/binary.bigEndian).PutUint64": 8, "(encoding/binary.bigEndian).PutUint32": 4}[name]
		na := len(args)
		b, ok := args[na-2].(sSlice)
		v, okv := d.intArg(args[na-1])
		if !ok || !okv || b.hi-b.lo < k {
			return fail("%s into an unknown buffer", name)
		}
		arr := st.heap[b.id].(*hArray)
		d.writeBytes(st, arr, b.lo, pBe(v, k), k)
		set(sNil{})
		return true, nil
	case "sm2/internal/fiat.sm2Nonzero", "sm2/internal/fiat.sm2ScalarNonzero":
		// *out = OR of the four limbs (the primitive's body is checked by C08 where the word is used as a verdict): a
		// word that is zero exactly when the (canonical) element is
		var t *pt
		switch in := args[1].(type) {
		case pObj:
			if h := d.obj(st, in); h != nil && h.t != nil {
				t = h.t
			}
		case sPtr:
			if st.limbTerm != nil {
				t = st.limbTerm[in.id]
			}
		}
		out, ok := args[0].(sPtr)
		if t == nil || !ok || out.idx < 0 {
			return fail("Nonzero of an unknown element")
		}
		arr, ok := st.heap[out.id].(*hArray)
		if !ok || out.idx >= len(arr.elems) {
			return fail("Nonzero into an unknown destination")
		}
		arr.elems[out.idx] = pInt{pOp("nzw", t)}
		set(sNil{})
		return true, nil
	case "sm2/internal/fiat.sm2Sub", "sm2/internal/fiat.sm2ScalarSub":
		// limbs of (a - b) modulo the prime: a canonical residue
		term := func(v sVal) *pt {
			switch in := v.(type) {
			case pObj:
				if h := d.obj(st, in); h != nil {
					return h.t
				}
			case sPtr:
				if st.limbTerm != nil {
					return st.limbTerm[in.id]
				}
			}
			return nil
		}
		a, b := term(args[1]), term(args[2])
		if a == nil || b == nil {
			return fail("limb subtraction of unknown elements")
		}
		modop := "modP"
		if strings.Contains(name, "Scalar") {
			modop = "mod"
		}
		res := pOp(modop, pAdd(a, pNeg(b)))
		switch out := args[0].(type) {
		case pObj:
			h := d.obj(st, out)
			if h == nil {
				return fail("limb subtraction into an unknown element")
			}
			d.setObj(st, out, &hProto{kind: h.kind, t: res, set: true})
		case sPtr:
			if st.limbTerm == nil {
				st.limbTerm = map[int]*pt{}
			}
			st.limbTerm[out.id] = res
		default:
			return fail("limb subtraction into an unknown destination")
		}
		set(sNil{})
		return true, nil
	case "sm2/internal/fiat.sm2FromMontgomery", "sm2/internal/fiat.sm2ScalarFromMontgomery":
		// out = the limbs of the element's value: limb j is the value of bytes [24-8j, 32-8j) of its 32-byte encoding
		var t *pt
		switch in := args[1].(type) {
		case pObj:
			if h := d.obj(st, in); h != nil && h.t != nil {
				t = h.t
			}
		case sPtr:
			if st.limbTerm != nil {
				t = st.limbTerm[in.id]
			}
		}
		out, ok := args[0].(sPtr)
		if t == nil || !ok {
			return fail("FromMontgomery of an unknown element")
		}
		arr, ok := st.heap[out.id].(*hArray)
		if !ok || len(arr.elems) != 4 {
			return fail("FromMontgomery into an unknown destination")
		}
		enc := pBe(t, 32)
		for j := 0; j < 4; j++ {
			arr.elems[j] = pInt{pVal(pSub(enc, 24-8*j, 32-8*j))}
		}
		if st.limbTerm == nil {
			st.limbTerm = map[int]*pt{}
		}
		st.limbTerm[out.id] = t
		set(sNil{})
		return true, nil
	case "encoding/binary.bigEndian.PutUint16", "(encoding/binary.bigEndian).PutUint16":
		na := len(args)
		b, ok := args[na-2].(sSlice)
		v, okv := d.intArg(args[na-1])
		if !ok || !okv || b.hi-b.lo < 2 {
			return fail("PutUint16 into an unknown buffer")
		}
		arr := st.heap[b.id].(*hArray)
		d.writeBytes(st, arr, b.lo, pBe(v, 2), 2)
		set(sNil{})
		return true, nil
	}
	return false, nil
}

// stripMod: arithmetic modulo m sees through an inner reduction modulo the same m
func stripMod(t *pt, mod string) *pt {
	if t.op == mod {
		return t.args[0]
	}
	return t
}

// reduceConst: the residue of a small constant is a constant (negative ones wrap to modulus + c)
func reduceConst(t *pt, mod string) *pt {
	in := t.args[0]
	if in.op == "c" && in.n.IsInt64() && in.n.Int64() > -1000 && in.n.Int64() < 1000 {
		if in.n.Sign() >= 0 {
			return in
		}
		m := "N"
		if mod == "modP" {
			m = "P"
		}
		return pAdd(pSym(m), in)
	}
	return t
}

type pReader struct{}

func flatCat(parts []*pt) *pt {
	var out []*pt
	var add func(t *pt)
	add = func(t *pt) {
		if t.op == "cat" {
			for _, a := range t.args {
				add(a)
			}
			return
		}
		if t.op == "lit" && t.k == 0 {
			return
		}
		out = append(out, t)
	}
	for _, p := range parts {
		add(p)
	}
	return pOp("cat", out...)
}

func widthBound(n int) *pt {
	if n == 32 {
		return pSym("B256")
	}
	if n == 31 {
		return pSym("B248")
	}
	if n > 32 && n <= 39 {
		return pMul(pC(int64(1)<<uint(8*(n-32))), pSym("B256")) // 256^(n-32) * 2^256: linear in the symbol
	}
	return &pt{op: "c", n: new(big.Int).Lsh(big.NewInt(1), uint(8*n))}
}

// need: an operation's precondition must follow from the path (reported, not assumed)
func (d *protoDom) need(st *sState, a *pt, op token.Token, b *pt, what, pos string) {
	if !proveP(st.pfacts, a, op, b) {
		d.e.precond = append(d.e.precond, fmt.Sprintf("%s at %s: %s %s %s does not follow from the guards of the path", what, pos, a, op, b))
	}
}

func (d *protoDom) needLen(st *sState, b *pt, n int, what, pos string) {
	if d.lenOf(st, b) == n {
		return
	}
	if !proveP(st.pfacts, pOp("len", b), token.EQL, pC(int64(n))) {
		d.e.precond = append(d.e.precond, fmt.Sprintf("%s at %s: len(%s) == %d does not follow from the guards of the path", what, pos, b, n))
	}
}

func (d *protoDom) needFinite(st *sState, P *pt, what, pos string) {
	if finitePoint(st, P) {
		return
	}
	d.e.precond = append(d.e.precond, fmt.Sprintf("%s at %s although the point %s is not known to be finite on this path", what, pos, P))
}

// finitePoint: decoded points are finite (the decoder accepts the infinity encoding only as a 1-byte string, which the
// callers never build); [k]G is finite for 1 <= k <= N-1; otherwise an explicit IsInfinity guard is needed.
func finitePoint(st *sState, P *pt) bool {
	for _, f := range st.pfacts {
		if f.a == nil && f.raw == "isInf("+P.String()+")" && !f.val {
			return true
		}
	}
	switch P.op {
	case "decode":
		return pLen(P.args[0]) == 65 || P.args[0].op == "cat"
	case "xy":
		return true // an affine point given by its coordinates (Z = 1)
	case "base":
		return proveP(st.pfacts, P.args[0], token.GEQ, pC(1)) && proveP(st.pfacts, P.args[0], token.LSS, pSym("N"))
	}
	return false
}

// orOfAllBytes: t is byte(X,0) | byte(X,1) | ... | byte(X,n-1) for a string X of known length n; returns X
func orOfAllBytes(d *protoDom, st *sState, t *pt) *pt {
	if t.op == "trunc" {
		t = t.args[0]
	}
	args := t.args
	if t.op == "byte" {
		args = []*pt{t} // a one-byte string
	} else if t.op != "or" {
		return nil
	}
	var X *pt
	seen := map[int]bool{}
	for _, a := range args {
		if a.op == "c" && a.n.Sign() == 0 {
			continue
		}
		if a.op != "byte" {
			return nil
		}
		if X == nil {
			X = a.args[0]
		} else if a.args[0].String() != X.String() {
			return nil
		}
		seen[a.k] = true
	}
	if X == nil {
		return nil
	}
	n := d.lenOf(st, X)
	if n <= 0 || len(seen) != n {
		return nil
	}
	for i := 0; i < n; i++ {
		if !seen[i] {
			return nil
		}
	}
	return X
}

// wholeNonzeroWord: x is the word nzw(t) handed out by the Nonzero primitive, or the OR of pieces of it that together cover
// all 64 bits (uint32(w) | uint32(w>>32), ...); returns t
func wholeNonzeroWord(x *pt) *pt {
	var base *pt
	var cover uint64
	var walk func(t *pt, shift uint, width uint) bool
	walk = func(t *pt, shift uint, width uint) bool {
		switch t.op {
		case "nzw":
			if base != nil && base.String() != t.String() {
				return false
			}
			base = t
			if shift >= 64 {
				return true
			}
			w := width
			if w > 64-shift {
				w = 64 - shift
			}
			var m uint64
			if w >= 64 {
				m = ^uint64(0)
			} else {
				m = (uint64(1)<<w - 1)
			}
			cover |= m << shift
			return true
		case "trunc":
			w := uint(t.k)
			if w > width {
				w = width
			}
			return walk(t.args[0], shift, w)
		case "shr":
			if t.n == nil || !t.n.IsInt64() || t.n.Int64() < 0 || t.n.Int64() > 63 {
				return false
			}
			k := uint(t.n.Int64())
			return walk(t.args[0], shift+k, width)
		case "or":
			for _, a := range t.args {
				if !walk(a, shift, width) {
					return false
				}
			}
			return true
		}
		return false
	}
	if !walk(x, 0, 64) || base == nil || cover != ^uint64(0) {
		return nil
	}
	return base.args[0]
}
