package main

import (
	"fmt"
	"strings"

	"golang.org/x/tools/go/ssa"
)

func init() { register("C07", "other", checkC07) }

func newCFG(r *Routine, flow *FlowResult) *xAnalysis {
	a := &xAnalysis{r: r, flow: flow}
	a.res = &xResult{r: r, accesses: map[int]*xAccess{}}
	a.buildBlocks()
	a.computeDominators()
	a.findLoops()
	return a
}

func checkC07(c *Ctx, r *Report) {
	r.Explanation = "Decided for both architectures. Go side (glue domain: Open interpreted path by path over symbolic lengths, capacities and the tag size; the assembler routines and the block helpers by their contracts): (a) OPEN-GUARDS every outcome of Open that returns a nil error has established len(nonce) == nonceSize, tagSize >= 12, len(ciphertext) >= tagSize and the GCM length limit (decided as linear consequences of the path condition, not by the spelling of the guards); (b) OPEN-VERDICT every accepting outcome is conditioned on the tag comparison having returned 1 - the fused openAsm over the whole nonce, ciphertext and additional data with g.tagSize (amd64), or subtle.ConstantTimeCompare of exactly tagSize bytes of a local expected tag with the last tagSize bytes of the ciphertext (arm64); (c) OPEN-REJECT-RESULT every other outcome returns (nil, error); (d) RELEASE-AFTER-MATCH the Go code writes nothing into dst's array on a rejecting outcome and nothing before the comparison on an accepting one; (e) no slice or index bound of Open can be violated on any path (SLICE-BOUNDS, INDEX-BOUNDS). Assembler side (amd64 openAsm): every store whose provenance is the dst parameter is dominated by the match edge of the single loop-free verdict branch; the result is the constant chosen by that branch; the compare loops consume exactly tagSize bytes of both tags, every byte of received XOR expected is accumulated and every bit of the accumulators reaches the verdict. NOT decided: that the expected tag is the GHASH of the right data (C06) beyond the consumption rule of C11."
	r.Trusted = []string{"go tool asm -S listing, opcode table", "go/ssa", "crypto/subtle.ConstantTimeCompare returns 1 exactly when its arguments are equal", "the LP decision procedure for path conditions (exact rational simplex)"}
	for _, arch := range []string{"amd64", "arm64"} {
		u, p := loadAsmBound(c, r, arch)
		if u == nil {
			return
		}
		glueGCMOpen(r, p, arch)
		if arch == "amd64" {
			c07Amd64(r, u)
		}
	}
	r.Floor("open_accepting_outcomes_amd64", 1)
	r.Floor("open_accepting_outcomes_arm64", 1)
	r.Floor("open_rejecting_outcomes_amd64", 2)
	r.Floor("open_rejecting_outcomes_arm64", 2)
	r.Floor("dst_stores_amd64", 4)
	r.Floor("consumption_obligations", 2)
}

func isGlobalNamed(v ssa.Value, name string) bool {
	g, ok := v.(*ssa.Global)
	return ok && g.Name() == name
}

func c07Amd64(r *Report, u *AsmUnit) {
	// assembler side
	rt := u.Routine("openAsm")
	if rt == nil {
		r.Fatalf("unresolved anchor: amd64 openAsm")
		return
	}
	flow := AnalyzeFlow(rt)
	if len(flow.Errors) > 0 {
		r.Fatalf("openAsm: %s", flow.Errors[0])
		return
	}
	var verdict *Instr
	for _, br := range flow.TaintedBranch {
		if ok, _ := flow.VerdictCheck(br); ok {
			if verdict != nil {
				r.Viol("SINGLE-VERDICT", "amd64/openAsm", br.Pos, "more than one data-dependent verdict branch")
			}
			verdict = br
		}
	}
	if verdict == nil {
		r.Viol("SINGLE-VERDICT", "amd64/openAsm", rt.Instrs[0].Pos, "no loop-free verdict branch on the tag difference found")
		return
	}
	a := newCFG(rt, flow)
	// which successor is the match arm? the one from which every return leaves the constant 1 in the result slot; from the
	// other one every return must leave 0 (constant propagation of the result slot over the control-flow graph)
	resStore := map[int]uint8{} // instruction -> value class stored into the result slot: 1 = {0}, 2 = {1}, 4 = other
	for _, acc := range flow.Accesses {
		if acc.Mem.Store && acc.Mem.FPSlot {
			in := acc.Instr
			cl := uint8(4)
			if len(in.Args) == 2 && in.Args[0].Kind == OImm {
				switch in.Args[0].Imm {
				case 0:
					cl = 1
				case 1:
					cl = 2
				}
			}
			resStore[in.Idx] = cl
		}
	}
	isRet := func(b *xBlock) bool { return b.end > b.start && rt.Instrs[b.end-1].Op == "RET" }
	// forward propagation from a set of seeded blocks; returns the union of the classes at the returns reached
	propagate := func(seed map[int]uint8, upto int) (atRet uint8, atInstr uint8) {
		in := map[int]uint8{}
		var work []int
		for b, v := range seed {
			in[b] = v
			work = append(work, b)
		}
		for len(work) > 0 {
			b := a.blocks[work[len(work)-1]]
			work = work[:len(work)-1]
			v := in[b.id]
			for i := b.start; i < b.end; i++ {
				if i == upto {
					atInstr |= v
				}
				if c, ok := resStore[i]; ok {
					v = c
				}
			}
			if isRet(b) {
				atRet |= v
				continue
			}
			for _, s := range b.succ {
				if in[s]|v != in[s] {
					in[s] |= v
					work = append(work, s)
				}
			}
		}
		return
	}
	_, atVerdict := propagate(map[int]uint8{0: 8}, verdict.Idx) // 8 = not yet stored
	matchBlock := -1
	var arms []string
	okArms := len(verdict.Succ) == 2
	for _, s := range verdict.Succ {
		b := a.blockOf[s]
		atRet, _ := propagate(map[int]uint8{b: atVerdict}, -1)
		arms = append(arms, fmt.Sprintf("%s -> result classes %#x", rt.Instrs[s].Pos, atRet))
		switch atRet {
		case 2:
			if matchBlock >= 0 {
				okArms = false
			}
			matchBlock = b
		case 1:
		default:
			okArms = false
		}
	}
	if matchBlock < 0 || !okArms {
		r.Viol("RELEASE-AFTER-MATCH", "amd64/openAsm match arm", verdict.Pos, "the two arms of the verdict branch do not leave the constants 1 (match) and 0 (mismatch) in the result on all their returns: "+strings.Join(arms, "; "))
		return
	}
	r.Ok("VERDICT-VALUE", "amd64/openAsm result", verdict.Pos, "every return reached from the match arm leaves 1 in the result slot and every return reached from the other arm leaves 0: "+strings.Join(arms, "; "))
	r.Ok("SINGLE-VERDICT", "amd64/openAsm", verdict.Pos, "single loop-free verdict branch: "+verdict.Raw)
	nst, bad := 0, 0
	for _, acc := range flow.Accesses {
		if !acc.Mem.Store || acc.Object != "p:dst.ptr" {
			continue
		}
		nst++
		if !a.dominates(matchBlock, a.blockOf[acc.Instr.Idx]) {
			bad++
			r.Viol("RELEASE-AFTER-MATCH", fmt.Sprintf("amd64/openAsm store to dst #%d", nst), acc.Instr.Pos, "a store into the plaintext destination is not dominated by the tag-match edge: "+acc.Instr.Raw)
		}
	}
	r.Count("dst_stores_amd64", nst)
	if bad == 0 {
		r.Ok("RELEASE-AFTER-MATCH", "amd64/openAsm stores to dst", verdict.Pos, fmt.Sprintf("all %d stores with dst provenance are dominated by the match arm of the verdict branch", nst))
	}
	// the result slot is only ever given the constants 0/1 by the two arms
	for _, acc := range flow.Accesses {
		if acc.Mem.Store && acc.Mem.FPSlot {
			in := acc.Instr
			r.Check(in.Args[0].Kind == OImm && (in.Args[0].Imm == 0 || in.Args[0].Imm == 1), "VERDICT-VALUE", "amd64/openAsm result store "+in.Raw, in.Pos, "the result is a constant chosen by the verdict branch")
		}
	}
	c07TagFold(r, rt, flow, a, verdict)
	// REGISTER-DEFINED: the expected tag is a function of the inputs only if no vector register is read before it is written
	if undef := VecDefBeforeUse(rt, flow); len(undef) > 0 {
		for i, u := range undef {
			if i < 6 {
				r.Viol("REGISTER-DEFINED", "amd64/openAsm: "+u[strings.Index(u, ": ")+2:], "sm4/"+u[:strings.Index(u, ": ")], "a vector register is read before it is written on some path from the entry: the expected tag depends on what an earlier call left in it")
			}
		}
	} else {
		r.Ok("REGISTER-DEFINED", "amd64/openAsm", "sm4/"+rt.File, "every vector and mask register is written on every path before it is read")
	}
	// the expected tag must be computed over every byte of aad, nonce and ciphertext[:len-tagSize]: consumption rule of A4
	dataSize := map[string]int{}
	for _, d := range u.DataSyms() {
		dataSize[d.Name] = d.Size
	}
	res := AnalyzeExtents(rt, flow, asmContracts("amd64")["openAsm"], dataSize)
	for _, pr := range res.problems {
		r.Undecided("CONSUMPTION", "amd64/openAsm", "sm4/"+rt.File, pr)
	}
	for _, o := range res.consumption {
		r.Obls = append(r.Obls, o)
	}
	r.Count("consumption_obligations", len(res.consumption))
	// SCRATCH-REINIT: the staging block is cleared before every partial copy that follows a consumed staging
	r.Obls = append(r.Obls, res.scratchObl...)
	if len(res.scratchObl) == 0 {
		r.Ok("SCRATCH-REINIT", "amd64/openAsm", "sm4/"+rt.File, fmt.Sprintf("%d vector loads from the scratch block on all paths: none reads bytes left over from an earlier staging (scratch is zero on entry: a fresh local of Open)", res.scratchLoads))
	}
	r.Count("scratch_loads", res.scratchLoads)
}

// c07TagFold: demanded-bits analysis of the straight-line fold that precedes the verdict branch: every bit the compare
// loops can set in an accumulator register must reach the flags tested by the verdict.
func c07TagFold(r *Report, rt *Routine, flow *FlowResult, a *xAnalysis, verdict *Instr) {
	blk := a.blocks[a.blockOf[verdict.Idx]]
	demand := map[string]uint64{}
	// the compare that feeds the branch
	i := verdict.Idx - 1
	for ; i >= blk.start; i-- {
		in := rt.Instrs[i]
		if flow.Effects[i].SetsFlags {
			if (in.Op == "CMPQ" || in.Op == "TESTQ") && len(in.Args) == 2 {
				for _, o := range in.Args {
					if o.Kind == OReg {
						demand[o.Reg] = ^uint64(0)
					}
				}
			} else {
				r.Undecided("TAG-FOLD", "amd64/openAsm", in.Pos, "verdict flags are not set by a register compare: "+in.Raw)
				return
			}
			break
		}
	}
	for i--; i >= blk.start; i-- {
		in := rt.Instrs[i]
		e := flow.Effects[i]
		switch in.Op {
		case "ORB":
			if in.Args[0].Kind == OReg && in.Args[1].Kind == OReg {
				d := demand[in.Args[1].Reg] & 0xff
				demand[in.Args[0].Reg] |= d
				continue
			}
		case "ORQ":
			if in.Args[0].Kind == OReg && in.Args[1].Kind == OReg {
				demand[in.Args[0].Reg] |= demand[in.Args[1].Reg]
				continue
			}
		case "SHRQ":
			if in.Args[0].Kind == OImm && in.Args[1].Kind == OReg {
				demand[in.Args[1].Reg] = demand[in.Args[1].Reg] << uint(in.Args[0].Imm)
				continue
			}
		case "SHLQ":
			if in.Args[0].Kind == OImm && in.Args[1].Kind == OReg {
				demand[in.Args[1].Reg] = demand[in.Args[1].Reg] >> uint(in.Args[0].Imm)
				continue
			}
		case "MOVQ":
			if in.Args[0].Kind == OReg && in.Args[1].Kind == OReg && isGPR(in.Args[0].Reg) && isGPR(in.Args[1].Reg) {
				demand[in.Args[0].Reg] |= demand[in.Args[1].Reg]
				demand[in.Args[1].Reg] = 0
				continue
			}
		case "NOP":
			continue
		}
		// any other instruction: everything it reads is demanded in full if something it writes is demanded
		any := false
		for _, w := range e.Writes {
			if demand[w] != 0 {
				any = true
				demand[w] = 0
			}
		}
		if any {
			for _, rd := range e.Reads {
				demand[rd] = ^uint64(0)
			}
		}
	}
	// the compare loops: byte-dependency simulation of each loop body (tagCompareLoops) gives, per loop, the accumulator
	// registers with the bytes of the tag difference they collect, and checks that the loop folds every byte it steps over
	loops := tagCompareLoops(r, rt, flow, a, blk.start)
	n := 0
	for _, lp := range loops {
		for reg, bytes := range lp.acc {
			n++
			var bits uint64
			for i := 0; i < 8; i++ {
				if bytes&(1<<uint(i)) != 0 {
					bits |= 0xff << uint(8*i)
				}
			}
			missing := bits &^ demand[reg]
			r.Check(missing == 0, "TAG-FOLD", fmt.Sprintf("amd64/openAsm accumulator %s (%d-byte compare loop)", reg, lp.width), lp.pos, fmt.Sprintf("bits the compare loop can set: %#x; bits that reach the verdict: %#x%s", bits, demand[reg], ifs(missing != 0, fmt.Sprintf("; bits %#x of the tag difference never influence the verdict", missing))))
		}
	}
	if n == 0 {
		r.Undecided("TAG-FOLD", "amd64/openAsm", verdict.Pos, "no compare loop with a difference accumulator found before the verdict")
	}
}

type tagLoop struct {
	width int
	pos   string
	acc   map[string]uint8 // accumulator register -> bytes that carry a tag difference
}

// tagCompareLoops: every cycle that reaches the verdict block and loads from both the received tag (ciphertext) and the
// expected tag (scratch). The loop body is simulated on byte-dependency sets: each register / the scratch word holds, per
// byte, which bytes x_i (received) and y_i (expected) of this iteration's window it depends on. TAG-COVERAGE requires that
// for every byte i of the window some accumulator byte depends on both x_i and y_i, and that both pointers advance by
// exactly the window width.
func tagCompareLoops(r *Report, rt *Routine, flow *FlowResult, a *xAnalysis, verdictStart int) []tagLoop {
	accBy := map[int]Access{}
	for _, ac := range flow.Accesses {
		accBy[ac.Instr.Idx] = ac
	}
	var out []tagLoop
	seenBlk := map[int]bool{}
	for idx := range rt.Instrs {
		// a compare step is a cycle (a loop over windows of one width) or a block executed at most once (one stage of a
		// quad/long/word/byte ladder); both are simulated the same way
		inCycle := rt.InCycle[idx]
		bi := a.blockOf[idx]
		if seenBlk[bi] {
			continue
		}
		seenBlk[bi] = true
		xb := a.blocks[bi]
		if !reachesWithoutLeaving(rt, xb.start, verdictStart) {
			continue
		}
		// does the block load from both tags?
		var xBase, yBase string
		for j := xb.start; j < xb.end && j < len(rt.Instrs); j++ {
			if ac, ok := accBy[j]; ok {
				switch ac.Object {
				case "p:ciphertext.ptr":
					xBase = ac.Mem.Base
				case "p:temp.ptr":
					yBase = ac.Mem.Base
				}
			}
		}
		if xBase == "" || yBase == "" {
			continue
		}
		hasXor := false
		for j := xb.start; j < xb.end && j < len(rt.Instrs); j++ {
			if strings.HasPrefix(rt.Instrs[j].Op, "XOR") {
				hasXor = true
			}
		}
		if !hasXor {
			continue // a copy loop (staging of the received tag), not a comparison
		}
		type dep [8]uint16 // per byte: bit i = x_i, bit 8+i = y_i
		regs := map[string]dep{}
		temps := map[string]bool{} // registers (re)loaded in every iteration
		var mem dep                // the scratch word at 0(y)
		memValid := false
		width := 0
		step := map[string]int64{}
		var problems []string
		opw := func(op string) int {
			if len(op) == 7 && strings.HasPrefix(op, "MOV") && (strings.HasSuffix(op, "ZX") || strings.HasSuffix(op, "SX")) {
				return map[byte]int{'B': 1, 'W': 2, 'L': 4}[op[3]] // extending load: the source width carries the data
			}
			switch op[len(op)-1] {
			case 'Q':
				return 8
			case 'L':
				return 4
			case 'W':
				return 2
			case 'B':
				return 1
			}
			return 0
		}
		loadDep := func(base string, w int) dep {
			var d dep
			for i := 0; i < w; i++ {
				if base == xBase {
					d[i] = 1 << uint(i)
				} else {
					d[i] = 1 << uint(8+i)
				}
			}
			return d
		}
		union := func(p, q dep, w int) dep {
			for i := 0; i < w; i++ {
				p[i] |= q[i]
			}
			return p
		}
		for j := xb.start; j < xb.end && j < len(rt.Instrs); j++ {
			in := rt.Instrs[j]
			if len(in.Args) == 1 && (in.Op == "INCQ" || in.Op == "DECQ") && in.Args[0].Kind == OReg {
				if in.Op == "INCQ" {
					step[in.Args[0].Reg]++
				} else {
					step[in.Args[0].Reg]--
				}
				continue
			}
			if len(in.Args) != 2 {
				continue
			}
			src, dst := in.Args[0], in.Args[1]
			w := opw(in.Op)
			isMem := func(o Operand) bool { return o.Kind == OMem && (o.Reg == xBase || o.Reg == yBase) }
			switch {
			case strings.HasPrefix(in.Op, "MOV") && isMem(src) && dst.Kind == OReg:
				if src.Off != 0 {
					problems = append(problems, "load at a non-zero offset: "+in.Raw)
				}
				if src.Reg == yBase && memValid {
					regs[dst.Reg] = mem
				} else {
					regs[dst.Reg] = loadDep(src.Reg, w)
				}
				temps[dst.Reg] = true
				if w > width {
					width = w
				}
			case strings.HasPrefix(in.Op, "MOV") && src.Kind == OReg && isMem(dst):
				if dst.Reg == yBase {
					mem, memValid = regs[src.Reg], true
				}
			case strings.HasPrefix(in.Op, "MOV") && src.Kind == OReg && dst.Kind == OReg && isGPR(dst.Reg):
				regs[dst.Reg] = regs[src.Reg]
			case strings.HasPrefix(in.Op, "MOV") && src.Kind == OImm && dst.Kind == OReg:
				regs[dst.Reg] = dep{}
			case (strings.HasPrefix(in.Op, "XOR") || strings.HasPrefix(in.Op, "OR")) && w > 0:
				var sd dep
				switch {
				case isMem(src):
					if src.Reg == yBase && memValid {
						sd = mem
					} else {
						sd = loadDep(src.Reg, w)
					}
					if w > width {
						width = w
					}
				case src.Kind == OReg:
					sd = regs[src.Reg]
				default:
					continue
				}
				switch {
				case dst.Kind == OReg:
					if strings.HasPrefix(in.Op, "XOR") && src.Kind == OReg && src.Reg == dst.Reg {
						regs[dst.Reg] = dep{} // zero idiom
					} else {
						regs[dst.Reg] = union(regs[dst.Reg], sd, w)
					}
				case isMem(dst):
					cur := loadDep(dst.Reg, w)
					if dst.Reg == yBase && memValid {
						cur = mem
					}
					if dst.Reg == yBase {
						mem, memValid = union(cur, sd, w), true
					}
					if w > width {
						width = w
					}
				}
			case (in.Op == "ADDQ" || in.Op == "SUBQ") && src.Kind == OImm && dst.Kind == OReg:
				if in.Op == "ADDQ" {
					step[dst.Reg] += src.Imm
				} else {
					step[dst.Reg] -= src.Imm
				}
			case in.Op == "LEAQ" && src.Kind == OMem && dst.Kind == OReg && src.Reg == dst.Reg:
				step[dst.Reg] += src.Off
			case in.Op == "CMPQ" || in.Op == "TESTQ":
			default:
				// anything else that writes a tracked register makes it unknown (no dependencies)
				if dst.Kind == OReg {
					if _, tracked := regs[dst.Reg]; tracked {
						delete(regs, dst.Reg)
					}
				}
			}
		}
		if width == 0 {
			continue
		}
		lp := tagLoop{width: width, pos: rt.Instrs[xb.start].Pos, acc: map[string]uint8{}}
		covered := map[int]bool{}
		for reg, d := range regs {
			if reg == "" {
				continue
			}
			var bytes uint8
			for i := 0; i < 8; i++ {
				if d[i] != 0 {
					bytes |= 1 << uint(i)
				}
				for k := 0; k < width; k++ {
					if d[i]&(1<<uint(k)) != 0 && d[i]&(1<<uint(8+k)) != 0 {
						covered[k] = true
					}
				}
			}
			// an accumulator survives the iteration: it is neither a pointer nor the loaded temporary (it must be live into
			// the verdict fold, which TAG-FOLD checks); temporaries are harmless here because TAG-FOLD only looks at demanded ones
			if bytes != 0 && !temps[reg] {
				lp.acc[reg] = bytes
			}
		}
		okCov := len(problems) == 0 && step[xBase] == int64(width) && step[yBase] == int64(width)
		if !inCycle && len(problems) == 0 && step[xBase] == 0 && step[yBase] == 0 {
			// a stage that runs at most once need not advance the pointers when nothing follows it; if something does, the
			// bytes it re-reads leave a gap that the CONSUMPTION rule reports (the received tag is not read to its end)
			okCov = true
		}
		for k := 0; k < width; k++ {
			if !covered[k] {
				okCov = false
			}
		}
		r.Check(okCov, "TAG-COVERAGE", fmt.Sprintf("amd64/openAsm %d-byte compare %s", width, map[bool]string{true: "loop", false: "stage"}[inCycle]), lp.pos, fmt.Sprintf("per iteration both tag pointers advance by %d / %d bytes and %d of the %d bytes of (received XOR expected) reach an accumulator%s", step[xBase], step[yBase], len(covered), width, ifs(len(problems) > 0, "; "+strings.Join(problems, "; "))))
		out = append(out, lp)
	}
	return out
}

// reachesWithoutLeaving: instruction `to` is reachable from `from` (CFG reachability).
func reachesWithoutLeaving(rt *Routine, from, to int) bool {
	seen := map[int]bool{}
	stack := []int{from}
	steps := 0
	for len(stack) > 0 && steps < 200000 {
		steps++
		i := stack[len(stack)-1]
		stack = stack[:len(stack)-1]
		if i == to {
			return true
		}
		if seen[i] {
			continue
		}
		seen[i] = true
		// do not walk through other loops' bodies far away: bounded by instruction distance
		if i-from > 400 || from-i > 400 {
			continue
		}
		stack = append(stack, rt.Instrs[i].Succ...)
	}
	return false
}

func lidxFuncs(r *Report, p *Prog, arch string, names []string) {
	for _, n := range names {
		fn := p.Func(n)
		if fn == nil || len(fn.Blocks) == 0 {
			r.Fatalf("[%s] unresolved anchor: %s", arch, n)
			continue
		}
		env := NewLinEnv(p, fn)
		env.lenSum = func(c2 *ssa.Function, call2 *ssa.Call, en *LinEnv) ([]*Lin, bool) {
			return retLenSummary(p, c2, 0, call2, en, 0)
		}
		bad := 0
		for _, b := range fn.Blocks {
			facts := env.FactsAt(b)
			for _, ins := range b.Instrs {
				var x ssa.Value
				var bound *Lin
				strict := true
				what := ""
				switch y := ins.(type) {
				case *ssa.IndexAddr:
					x, bound, what = y.X, env.Int(y.Index), "index"
				case *ssa.Slice:
					if y.High != nil {
						x, bound, strict, what = y.X, env.Int(y.High), false, "slice high bound"
					} else if y.Low != nil {
						x, bound, strict, what = y.X, env.Int(y.Low), false, "slice low bound"
					} else {
						continue
					}
				default:
					continue
				}
				r.Count("index_exprs_"+arch, 1)
				ls, ok := env.Len(x)
				if !ok {
					continue
				}
				// slicing up to cap is legal for the destination: only IndexAddr and low bounds are length-bound; high bounds are cap-bound
				if what == "slice high bound" {
					continue
				}
				for _, l := range ls {
					need := l.Sub(bound)
					if strict {
						need = need.Add(linConst(-1))
					}
					fs := append(append([]Fact(nil), facts...), env.Extra...)
					for k := range need.T {
						if isTagSizeTerm(p, k) {
							fs = append(fs, Fact{E: L(k).Sub(linConst(12))}, Fact{E: linConst(16).Sub(L(k))})
						}
					}
					if Decide(need, fs) == -1 {
						bad++
						r.Viol("L-IDX", fmt.Sprintf("[%s] %s: %s %s of a value of length %s", arch, n, what, bound.String(), l.String()), p.InstrPos(ins), "the operand can have this length and the bound is then out of range: run-time panic for some (len(dst), cap(dst), len(input))")
					}
				}
			}
		}
		if bad == 0 {
			r.Ok("L-IDX", fmt.Sprintf("[%s] %s", arch, n), p.Pos(fn.Pos()), "no index or slice bound definitely exceeds a possible operand length")
		}
	}
}
